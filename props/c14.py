"""C14 — reproducibility: same seed, same results; runs can be split and parallelised."""
from hypothesis import strategies as st

from engines import repro, e3gen
from vlib.runner import Search, Violation, repo_frames

ID = 'C14'
RULE = ('Hypothesis-generated E3-style models built only from picklable pieces (module-level callables, '
        'functools.partial), with merge topologies where tie-breaks decide who goes first, user callbacks that draw '
        'from the seeded global random (part quality; failure times through simprocesd.utils.'
        'geometric_distribution_sample with probabilities 0.2 and 0.0005), output-part sensors with sensing intervals '
        '1-2 and a periodic sensor. Three metamorphic relations, one per case: (seed) random.seed(s); build; simulate '
        'twice - the second time after advancing Asset._id_counter by a generated offset - gives identical recorded '
        'data, counters, holdings, value histories, sensor data and pool state once part ids are normalised by order '
        'of first appearance; (split) with the tie-break weight stream held fixed (the draw of each TERMINATE event '
        'neutralised) simulate(a); simulate(b)[; simulate(c)] equals simulate(a+b[+c]); (multi) '
        'System.simulate_multiple_times returns number_of_simulations systems, system i carries index i, and its '
        'normalised data equals the in-process run and a direct call with that index for max_processes in '
        '{1,2,5,None}; (hash) the seeded run re-executed in fresh interpreters with PYTHONHASHSEED 1 and 4242 gives the same digest of the normalised data as under PYTHONHASHSEED=0. Non-trivial = a different seed / opposite tie-break policy changes the data of this model '
        '(ties and random draws really decide something) and at least 30 records; distinct = SHA-1 of the canonical '
        'case JSON.')
ASSUMPTIONS = ['nothing the model computes looks at an asset id (gate predicates and callbacks use the index in the '
               'part name)', 'worker processes are forked; models contain no lambdas (the library documents the same '
               'restriction)', 'PYTHONHASHSEED is fixed to 0 by ./check; hash-seed independence is exercised by re-running cases in '
               'sub-processes with other hash seeds']
MIX = [('general', 4), ('contention', 3), ('interrupt', 3), ('buffers', 1), ('groups', 2)]


def on_repo_exception(case, e):
    return Violation('C14.crash', f'{type(e).__name__}: {e} at {repo_frames(e)}')


def cases(modes):
    def build(spec, seed, mode, split, off, mp, n, base, defn):
        spec = dict(spec)
        if defn and mode == 'seed':
            spec['defnames'] = True
        spec['T'] = [min(sum(spec['T']), 40)]
        spec.pop('trace', None)
        return {'model': spec, 'seed': seed, 'mode': mode, 'split': split, 'id_offset': off if base is None else 0, 'max_processes': mp, 'n': n, 'id_base': base}
    return st.builds(build, e3gen.specs(MIX), st.integers(0, 10 ** 6), st.sampled_from(modes),
                     st.lists(st.sampled_from([0.25, 1, 2.5, 3, 7]), min_size=1, max_size=2),
                     st.sampled_from([0, 1, 7, 1000, 10000]), st.sampled_from([1, 2, 5, None]), st.sampled_from([1, 2, 3]),
                     st.sampled_from([None] * 6 + [10 ** k - j for k in (1, 2, 3) for j in range(1, 9)]), st.booleans())


def boundary_cases():
    """Same seed, ids on both sides of a power of ten: two or three default-named sources with equal cycle times merge into
    one machine, the id counter is set so that the sources' ids (and so their default names) straddle 10, 100 or 1000."""
    def build(ns, c, pc, k, j, seed, pol, wseed, T):
        devs = [{'k': 'S', 'n': f'S{i}', 'c': c, 'budget': 'inf', 'batch': None, 'val': 1} for i in range(ns)]
        devs.append({'k': 'P', 'n': 'P0', 'c': pc, 'up': [f'S{i}' for i in range(ns)], 'res': None, 'alt': None, 'wod': 1,
                     'wocap': 1, 'wocost': 1})
        devs.append({'k': 'K', 'n': 'K0', 'c': 0, 'up': ['P0']})
        spec = {'devs': devs, 'groups': [], 'res': {}, 'actions': [], 'T': [T], 'tb': [pol, wseed], 'maint': 1,
                'profile': 'id-boundary', 'defnames': True}
        # the maintainer is created first, then the sources: ids base+1, base+2, ...
        return {'model': spec, 'seed': seed, 'mode': 'seed', 'split': [], 'id_offset': 0, 'max_processes': 1, 'n': 1,
                'id_base': 10 ** k - 3 - j}
    return st.builds(build, st.sampled_from([2, 3]), st.sampled_from([0.5, 1, 2]), st.sampled_from([0.5, 1, 1.5]),
                     st.sampled_from([1, 2, 3]), st.sampled_from([0, 1]), st.integers(0, 10 ** 6),
                     st.sampled_from(['random', 'fifo', 'lifo']), st.integers(0, 10 ** 6), st.sampled_from([8, 15, 25]))


def valid(case):
    return e3gen.well_posed(case['model']) and case['mode'] in ('seed', 'split', 'multi', 'hash') and case['n'] >= 1


def phases(tier):
    if tier == 'quick':
        return [Search('seed-and-split', lambda: cases(['seed', 'split']), 400, shards=4),
                Search('id-boundaries', boundary_cases, 60, shards=2),
                Search('multi-process', lambda: cases(['multi']), 40, shards=1),
                Search('hash-seed', lambda: cases(['hash']), 6, shards=1)]
    return [Search('seed-and-split', lambda: cases(['seed', 'split']), 1000, shards=16),
            Search('id-boundaries', boundary_cases, 300, shards=8),
            Search('multi-process', lambda: cases(['multi']), 150, shards=1),
            Search('hash-seed', lambda: cases(['hash']), 60, shards=4)]


def run_case(case, ctx):
    info = repro.check_hashseed(case) if case['mode'] == 'hash' else repro.check(case)
    classes = ['mode:' + info['mode']]
    if info['tie_sensitive']:
        classes.append('seed-or-tie-break-sensitive')
    if case['mode'] == 'multi':
        classes.append(f'max_processes={case["max_processes"]}')
    return {'nontrivial': info['tie_sensitive'] and info.get('records', 0) >= 30, 'classes': classes,
            'counters': {'records': info.get('records', 0)}}
