"""C09 — resource pools: usage equals outstanding reservations; requests are atomic."""
import itertools

from engines import rmmachine, e2gen
from vlib.runner import Search, Enumerate, Machine, Fuzz

ID = 'C09'
ALPHABET = [
    ['add', 'a', 2], ['add', 'a', -1], ['add', 'b', 1], ['add', 'new', -1], ['add', 'a', -9],
    ['reserve', {'a': 1}], ['reserve', {'a': 1, 'b': 1}], ['reserve', {'a': 2, 'b': -1}],
    ['reserve', {'b': -1, 'a': 2}], ['reserve', {'a': 1, 'zzz': 1}], ['reserve', {'a': 0}],
    ['release', 0, None], ['release', 0, {'a': 1}], ['release', 0, {'a': 5}], ['release', 0, {'zzz': 0, 'a': 1}],
    ['merge', 0, 1],
]
RULE = ('(i) complete enumeration of all operation sequences of the stated length over a 16-letter alphabet on '
        'resources {a,b,new,zzz}: add(a,+2) add(a,-1) add(b,+1) add(new,-1) add(a,-9) reserve{a:1} reserve{a:1,b:1} '
        'reserve{a:2,b:-1} reserve{b:-1,a:2} reserve{a:1,zzz:1} reserve{a:0} release(r0) release(r0,{a:1}) '
        'release(r0,{a:5}) release(r0,{zzz:0,a:1}) merge(r0,r1); every prefix is checked because the oracle runs '
        'after every operation. (ii) Hypothesis-generated sequences (<= 60 operations; amounts -2..5; five resource '
        'names incl. never-added ones; partial, excessive, negative, zero and unknown releases; merges of distinct '
        'reservations), and a structured over-commit profile (unit reservations, explicit capacity reductions below usage, then partial/full releases and merges). (iii) a Hypothesis RuleBasedStateMachine whose release rule draws its amounts from the CURRENT holdings of a reservation (state-dependent generation) with an invariant after every step; its history is recorded as the same JSON operation list, so a failure replays without Hypothesis. (iv) an atheris (libFuzzer) coverage-guided campaign whose target decodes bytes into the same operation alphabet and carries the same oracle inside; it can only add violations (a finding is confirmed through the replay path) and is skipped with a note if atheris is not installed. Oracle: reference pool model + "an operation that raised left usage, capacity and every '
        'holding unchanged". Non-trivial = a multi-entry or invalid reservation request was refused/raised after '
        'at least one successful reservation; distinct = SHA-1 of the canonical case JSON.')
ASSUMPTIONS = ['observation through get_resource_usage/get_resource_capacity/ReservedResources.reserved_resources only',
               'which exception type is raised is not checked; zero-amount release of a resource that is not held may '
               'either be a no-op or be rejected',
               'merge is only exercised on two distinct reservation objects (the statement says distinct)']


def space(length):
    def it(chunk, n):
        for i, first in enumerate(ALPHABET):
            for j, second in enumerate(ALPHABET):
                if (i * len(ALPHABET) + j) % n != chunk:
                    continue
                for rest in itertools.product(ALPHABET, repeat=length - 2):
                    yield {'ops': [first, second] + list(rest)}
    return it


def phases(tier):
    if tier == 'quick':
        return [Enumerate('enumeration-len4', space(4), 16, describe='16^4 = 65536 sequences'),
                Search('hypothesis-sequences', lambda: e2gen.pool_cases(40), 1000, shards=4),
                Search('overcommit-sequences', e2gen.overcommit_cases, 1000, shards=4),
                Machine('stateful-machine', rmmachine.pools_machine, 300, 40, shards=4),
                Search('reservations-inside-callbacks', lambda: e2gen.waiter_cases(20, True), 600, shards=2, tag='waiters'),
                Search('fractional-amounts', lambda: e2gen.fraction_cases(30), 1000, shards=2),
                Fuzz('atheris-coverage-guided', 'engines/fuzz_e2.py', 20000, shards=2)]
    return [Enumerate('enumeration-len5', space(5), 64, describe='16^5 = 1048576 sequences'),
            Search('hypothesis-sequences', lambda: e2gen.pool_cases(60), 4000, shards=16),
            Search('overcommit-sequences', e2gen.overcommit_cases, 4000, shards=16),
            Machine('stateful-machine', rmmachine.pools_machine, 1500, 60, shards=16),
            Search('reservations-inside-callbacks', lambda: e2gen.waiter_cases(40, True), 4000, shards=8, tag='waiters'),
            Search('fractional-amounts', lambda: e2gen.fraction_cases(50), 6000, shards=8),
            Fuzz('atheris-coverage-guided', 'engines/fuzz_e2.py', 400000, shards=8)]


def run_case(case, ctx):
    if 'tb' in case:
        # reservations made from inside availability callbacks: "succeeds exactly when every amount fits" there too
        pure, real = rmmachine.run_waiters(case, pool_oracles=True)
        return {'nontrivial': real.c['reserved_in_callback'] > 0, 'classes': ['reserved-inside-callback'] if
                real.c['reserved_in_callback'] else [], 'counters': {'callbacks': real.c['callbacks']}}
    p = rmmachine.run_pools(case)
    c = p.c
    classes = []
    for k in ('raised', 'merges', 'partial_releases', 'over_capacity_states', 'invalid_rejected', 'reserve_refused'):
        if c[k]:
            classes.append(k)
    return {'nontrivial': c['multi_failed_after_success'] > 0, 'classes': classes,
            'counters': {k: c[k] for k in ('ops', 'raised', 'reserve_ok', 'reserve_refused', 'merges')}}
