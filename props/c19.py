"""C19 — sensors sample when they should and keep bounded, aligned data."""
from hypothesis import strategies as st

from engines import sensors
from vlib.runner import Search

ID = 'C19'
RULE = ('Hypothesis-generated sensor set-ups on a real line Source -> PartProcessor -> Sink: PeriodicSensor with interval '
        'on the dyadic grid and off it (0.1, 0.3, 1/3, 0.7), OutputPartSensor with sensing interval 0..4, data '
        'capacity in {1,2,3,7,inf}, 0-3 on-sense callbacks, attribute probe on a changing attribute and a function '
        'probe returning a list that is mutated later, a Cms with sensors added once, twice or not at all, optional '
        'failure + restore of the processor; the periodic sensor optionally created inside an event at t0 > 0 (its k-th sample is then due k intervals after t0) and optionally accompanied by a second, different sensor with the same user-chosen name registered with the same Cms. Oracle: k-th periodic sample at the k-fold repeated addition of the '
        'interval (same left fold), part sensor at finished parts 1, n+2, 2n+3, ...; each stored value equals the '
        'value at that moment (copy); callbacks once each in registration order with (sensor, time, values); every '
        'series including time holds exactly the most recent min(count, capacity) entries, aligned; Cms receives '
        'each measurement of each registered sensor exactly once. Non-trivial = more samples than capacity and a '
        'probed value that changed; distinct = SHA-1 of the canonical case JSON.')
ASSUMPTIONS = ['the probed attribute changes every 0.5 time units by an event of higher priority than SENSOR',
               'the output-part sensor is created before the first simulate']


def cases():
    def build(src_c, proc_c, iv, cap, n, ncb, cms, fault, T, pol, seed, late, twin, readd, cms2, init):
        return {'late': late, 'twin_name': twin, 'readd': readd, 'src_c': src_c, 'proc_c': proc_c, 'iv': iv, 'cap': cap, 'n': n, 'ncb': ncb, 'cms': cms,
                'fault': fault, 'T': T, 'tb': [pol, seed], 'cms2': cms2, 'init': bool(init and not late)}
    return st.builds(build, st.sampled_from([0.5, 1, 2]), st.sampled_from([0.25, 1, 1.5]),
                     st.sampled_from([0.25, 0.5, 1.25, 3, 0.1, 0.3, 1 / 3, 0.7]),
                     st.sampled_from([1, 2, 3, 7, 'inf']), st.sampled_from([0, 1, 2, 4]), st.integers(0, 3),
                     st.sampled_from([[], ['ps'], ['ps', 'ps', 'os'], ['os', 'ps'], ['os', 'os']]),
                     st.sampled_from([None, None, [4, 8], [2.5, 3]]), st.sampled_from([6, 15, 25]),
                     st.sampled_from(['random', 'fifo', 'lifo', 'const']), st.integers(0, 10 ** 6),
                     st.sampled_from([None, None, 0.75, 2.5, 3]), st.sampled_from([None, None, 0.5, 1.5]),
                     st.sampled_from([None, 1.5, 3.25]), st.sampled_from([False, False, True]),
                     st.sampled_from([False, False, False, True]))


def valid(case):
    return len(case.get('tb', [])) == 2 and case['iv'] > 0 and case['T'] > 0 and case['src_c'] > 0


def phases(tier):
    if tier == 'quick':
        return [Search('sensor-setups', cases, 400, shards=4)]
    return [Search('sensor-setups', cases, 3000, shards=16)]


def run_case(case, ctx):
    r = sensors.run(case)
    classes = []
    if r['over_capacity']:
        classes.append('more-samples-than-capacity')
    if case['iv'] not in (0.25, 0.5, 1.25, 3):
        classes.append('non-dyadic-interval')
    if case['fault']:
        classes.append('processor-failure')
    if case.get('late'):
        classes.append('sensor-created-while-running')
    if case.get('twin_name'):
        classes.append('two-sensors-same-name')
    if len(case['cms']) > len(set(case['cms'])):
        classes.append('sensor-added-twice-to-cms')
    return {'nontrivial': r['over_capacity'] and r['periodic'] >= 2, 'classes': classes,
            'counters': {'samples': r['samples']}}
