"""C06 — cycle times are honoured exactly, one part at a time, across interruptions."""
from props._e3 import make

globals().update(make(
    'C06', ('cycle',),
    [('interrupt', 7), ('general', 2), ('contention', 1), ('buffers', 1)],
    'Oracle: a reference integrates operational time per processor over the pre-event state (dt = next event time - '
    'now); at every finish callback the operational time since acceptance equals max(0, cycle time in effect at '
    'acceptance + pending one-shot offsets) exactly; after every event no operational device holds a part past that '
    'time (not late), a finished part is the accepted one (not twice / not a lost one), one part at a time; plain '
    'handlers: release from processing exactly cycle time after acceptance; sources: a part is ready exactly one '
    'cycle after the previous one left; sinks: consecutive receipts at least one cycle apart. Non-trivial = at least '
    'one part whose processing overlapped a maintenance shutdown that began at a non-zero time AND at least one '
    'change of the effective cycle time; distinct = SHA-1 of the canonical spec JSON. A quarter of the models use ordinary decimal times (cycle 1.1, maintenance at 7.3, ...): there the same identities are demanded within 1e-9 (accumulated rounding) instead of exactly.',
    lambda mon, case: any(r.maint_with_part and r.changed_cycle for r in mon.refs.values()),
    lambda mon, case: (['maintenance-with-part-in-process'] if any(r.maint_with_part for r in mon.refs.values()) else [])
    + (['cycle-time-changed'] if any(r.changed_cycle for r in mon.refs.values()) else [])
    + (['failure-scheduled-while-down'] if False else []),
    quick=(1000, 4), thorough=(2500, 16), noisy_p=0.25))
