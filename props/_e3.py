"""Factory for the thin per-property modules that run on the E3 line fuzzer."""
from engines import e3gen, linefuzz
from vlib.runner import Search, Violation, repo_frames

COMMON_RULE = ('Hypothesis-generated whole production models (E3; every random choice drawn from a Hypothesis-managed '
               'Random, the case is the JSON model spec): 1-3 sources (incl. batch sources), stages of parallel '
               'handlers / processors with resource needs / buffers / batchers / complementary gate pairs / group '
               'paths into shared, re-entrant, chained and nested groups, 1-2 sinks; timed external actions with '
               'generated built-in and fractional priorities (failures, shutdown/restore, work orders through a real '
               'Maintainer, block toggles, pool capacity changes, budget adjustments, one-shot cycle offsets, mid-run '
               'rewiring); tie-break policy random/fifo/lifo/const; single or split runs. The real devices are wired '
               'to each other through the real event queue; a monitor wrapped around Environment.step evaluates the '
               'oracle after every executed event and at every quiescent instant. ')
COMMON_ASSUMPTIONS = ['models obey the well-posedness rules W1-W9 of DESIGN 2.7 by construction',
                      'times/values on the dyadic grid (multiples of 1/8) so that reference arithmetic is exact',
                      'state is read from the private fields the property names as anchors; nothing is mutated']


def make(ID, oracles, mix, rule, nontrivial, classes=None, quick=(150, 4), thorough=(1200, 16), assumptions=(),
         crash_is_violation=True, watchdog=False, trace_p=0.0, noisy_p=0.0):
    def phases(tier):
        n, sh = quick if tier == 'quick' else thorough
        return [Search('models', lambda: e3gen.specs(mix, trace_p, noisy_p), n, shards=sh)]

    def on_repo_exception(case, e):
        if crash_is_violation:
            return Violation(f'{ID}.crash', f'{type(e).__name__}: {e} at {repo_frames(e)}')
        return None

    def run_case(case, ctx):
        mon = linefuzz.run_spec(case, oracles)
        cl = classes(mon, case) if classes else []
        return linefuzz.common_result(mon, nontrivial(mon, case), cl)

    return {'ID': ID, 'RULE': COMMON_RULE + rule, 'ASSUMPTIONS': COMMON_ASSUMPTIONS + list(assumptions),
            'phases': phases, 'on_repo_exception': on_repo_exception, 'run_case': run_case,
            'valid': e3gen.well_posed, 'WATCHDOG_IS_VIOLATION': watchdog}
