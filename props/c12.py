"""C12 — maintainer: capacity, one order per target, request order, exact durations."""
from hypothesis import strategies as st

from engines import maint
from vlib.runner import Search

ID = 'C12'
RULE = ('Hypothesis-generated scenarios on a real Maintainer + Environment: capacity in {0,1,2,3,5,inf}; 1-4 harness '
        'Maintainable targets reporting a generated (duration, capacity, cost) per (target, tag) - capacity 0 and '
        'capacities above the total, duration 0, negative cost; 1-25 requests at generated times and event priorities '
        'incl. bursts in one instant and duplicates; one-shot requests issued from inside start and end hooks; all '
        'tie-break policies. Oracle: trace validation against a reference acceptor (request order, skip what does not '
        'fit or whose target is busy) fed with the observed occurrence stream: return value of create_work_order, '
        'available_capacity after every event, every start is one the reference selected, one order per target, '
        'duration read at start, end hook exactly start + duration, hooks once each, cost charged once; at every '
        'quiescent instant started-and-unfinished == reference-active and no queued order that fits with a free '
        'target is left waiting. Tags include tuples built afresh per request (equal but not identical objects). A second phase uses non-dyadic fractional capacities (0.1, 0.2, 0.3, 0.7 of 0.3 / 1 / 1.5): there the reference acceptor is not compared (whether 0.1 + 0.2 fits into 0.3 is a float question the statement does not settle) and only rounding-independent oracles decide: when no order is in progress available_capacity equals the total capacity exactly and no queued order needing at most the total capacity is left waiting; duplicates, one order per target, hooks once, exact durations as before. Non-trivial = at least one order overtook an earlier one that did not fit AND at '
        'least one order had to wait for its target; distinct = SHA-1 of the canonical case JSON.')
ASSUMPTIONS = ['documented scanning discipline: try_working_requests runs when requests are made and when requests complete',
               'starts within one instant are compared as a set (their relative order is a tie-break outcome)',
               'a request identical to the order whose own end hook is running may be answered either way']

TAGS = [None, 'a', 'b', ['pm', 1]]
G = [0, 0, 0.5, 1, 2, 3.25]


def cases(max_req, same_names=True):
    def build(capacity, nt, entries, reqs, hooks, pol, seed, T, vary, sn):
        tnames = [f't{i}' for i in range(nt)]
        table = {}
        i = 0
        for t in tnames:
            for g in TAGS:
                table[maint.key(t, g)] = list(entries[i % len(entries)])
                i += 1
        requests = [[t, p, tnames[ti % nt], g] for (t, p, ti, g) in reqs]
        hk = {}
        for (ti, g, which, t2, g2) in hooks:
            hk.setdefault(maint.key(tnames[ti % nt], g) + '/' + which, []).append([tnames[t2 % nt], g2])
        return {'capacity': capacity, 'targets': nt, 'table': table, 'requests': requests, 'hooks': hk,
                'tb': [pol, seed], 'T': T, 'vary': vary, 'same_names': bool(sn and same_names and nt > 1)}
    entry = st.tuples(st.sampled_from(G), st.sampled_from([0, 1, 1, 2, 3, 6]), st.sampled_from([0, 1, 2.5, -1.5]))
    req = st.tuples(st.sampled_from([0, 0, 1, 1, 1.5, 2, 3, 4, 6]), st.sampled_from([2, 5, 11, 3, 10, 6.5]),
                    st.integers(0, 3), st.sampled_from(TAGS))
    hook = st.tuples(st.integers(0, 3), st.sampled_from(TAGS), st.sampled_from(['start', 'end']), st.integers(0, 3),
                     st.sampled_from(TAGS))
    return st.builds(build, st.sampled_from([0, 1, 2, 2, 3, 5, 'inf']), st.integers(1, 4),
                     st.lists(entry, min_size=3, max_size=12), st.lists(req, min_size=2, max_size=max_req),
                     st.lists(hook, max_size=4), st.sampled_from(['random', 'fifo', 'lifo', 'const']),
                     st.integers(0, 10 ** 6), st.sampled_from([6, 12, 20]), st.booleans(),
                     st.sampled_from([False, False, True]))      # distinct machines that carry the same name


def valid(case):
    return (len(case.get('tb', [])) == 2 and case['T'] > 0 and case['targets'] >= 1
            and all(len(v) == 3 and v[0] >= 0 and v[1] >= 0 for v in case['table'].values())
            and len(case['table']) == case['targets'] * len(TAGS)
            and all(r[0] >= 0 and r[1] > 1 for r in case['requests'])
            and (case['capacity'] == 'inf' or case['capacity'] >= 0))


def noise_cases(max_req):
    """Fractional (non-dyadic) capacities: 0.1, 0.2, 0.3, 0.7 of a maintainer capacity 0.3 / 1 / 1.5."""
    def fix(case, caps, mcap):
        case = dict(case)
        case['noise'] = True
        case['capacity'] = mcap
        table = {}
        for i, (k, v) in enumerate(sorted(case['table'].items())):
            table[k] = [v[0], caps[i % len(caps)], max(v[2], 0)]
        case['table'] = table
        return case
    return st.builds(fix, cases(max_req), st.lists(st.sampled_from([0.1, 0.1, 0.2, 0.3, 0.7, 1]), min_size=2, max_size=6),
                     st.sampled_from([0.3, 1, 1, 1.5]))


def phases(tier):
    if tier == 'quick':
        return [Search('scenarios', lambda: cases(16), 1500, shards=4),
                Search('fractional-capacities', lambda: noise_cases(12), 500, shards=4)]
    return [Search('scenarios', lambda: cases(25), 6000, shards=16),
            Search('fractional-capacities', lambda: noise_cases(20), 3000, shards=16)]


def run_case(case, ctx):
    h = maint.run(case)
    c = h.c
    classes = []
    for k in ('overtakes', 'waited_for_target', 'hook_requests', 'rejected', 'burst'):
        if c[k]:
            classes.append(k)
    if case['capacity'] == 0:
        classes.append('capacity-zero')
    return {'nontrivial': c['overtakes'] > 0 and c['waited_for_target'] > 0, 'classes': classes,
            'counters': {k: c[k] for k in ('requests', 'accepted', 'starts', 'ends', 'overtakes')}}
