"""C16 — value accounting adds up."""
from props._e3 import make

globals().update(make(
    'C16', ('value',),
    [('values', 5), ('general', 3), ('interrupt', 2), ('batching', 2), ('buffers', 1), ('groups', 1)],
    'Oracle after every event, for every registered asset: value == starting value + sum of history deltas; every '
    'history entry has a non-zero delta, the running total, and (for entries written during this event) the current '
    'time; source.value == -cost_of_produced_parts == -(sum of the value each supplied part had just before the '
    'hand-over event, read independently by the monitor); sink.value == value_of_received_parts == sum of the values '
    'read by the monitor\'s receive callback; maintainer value == start - sum of the costs of started orders (start '
    'hook occurrences); every batch is worth the sum of its leaves; get_net_value_of_assets() == sum over registered '
    'assets. Models add value in finish callbacks and in receive callbacks (also on zero-cycle devices, i.e. '
    'inside the hand-over itself). Non-trivial = at least one part whose value changed in a callback was delivered '
    'to a sink; distinct = SHA-1 of the canonical spec JSON.',
    lambda mon, case: any(r[3] != mon.m.specs[s]['val'] for d in mon.devs if d.name.startswith('K')
                          for r in mon.recv_cb.get(d.name, []) for s in [next(x['n'] for x in case['devs'] if x['k'] == 'S')])
    and any(d.get('valadd') or d.get('rvaladd') for d in case['devs'] + [x for g in case['groups'] for x in g['devs']]),
    None, quick=(800, 4), thorough=(2000, 16)))
