"""C04 — serial-line timing equals the blocking-after-service recurrence."""
from hypothesis import strategies as st

from engines import serial
from vlib.runner import Search, Enumerate

ID = 'C04'
WATCHDOG_IS_VIOLATION = True   # the statement says the run ends / the line reaches its horizon
RULE = ('Hypothesis-generated serial lines: 0-6 stations (quick) / 0-10 (thorough), each PartHandler / PartProcessor (also user subclasses that override the cycle_time getter) '
        '(cycle c) or Buffer (delay c, capacity K in {1,2,3,5,inf}); source cycle c0 (0 only with a finite budget), '
        'budget in {0, 1..20, fractional 0.5/2.5/7.25, inf}; sink cycle; all times on a dyadic grid {0,1/4,1/2,1,3/2,2,3, 3/1024, 1+1/4096}; horizon on the grid; '
        'tie-break policy random/fifo/lifo/const. Oracle: independent max-plus reference written from the statement '
        '(D(j,k) = max(ready(j,k), free(j+1,k)), free = D(j+1,k-K), sink frees c after receipt, source restarts when '
        'the part leaves) compared EXACTLY with the received_part time list of every station and the sink, and the '
        'sink count; plus the two documented serial examples (SingleProcessor 99, BufferExample 10079) as fixed '
        'cases. A second phase gives the source a small budget and raises it from events during the run (adjust_part_count): part k then becomes available at max(previous departure + c0, time the budget first covers it). Non-trivial = at least one station was blocked by its successor at least once (D > ready) and at '
        'least 3 parts were delivered; distinct = SHA-1 of the canonical case JSON.')
ASSUMPTIONS = ['constant cycle times / delays / capacities; no failures, no resources, no gates (the statement\'s domain)',
               'entry times are read from simulation_data["received_part"]']

GRID = [0, 0.25, 0.5, 1, 1, 1.5, 2, 3, 3 * 2 ** -10, 1 + 2 ** -12]      # also dyadic values that need more than 9 decimals
EXAMPLES = [
    {'src': [1, 'inf'], 'stations': [['P', 1]], 'sink': 0, 'T': 100, 'tb': ['random', 1], 'expect_sink': 99},
    {'src': [0, 'inf'], 'stations': [['P', 1], ['B', 0, 5], ['P', 1]], 'sink': 0, 'T': 10080, 'tb': ['random', 1],
     'expect_sink': 10079},
]


def station():
    hp = st.tuples(st.sampled_from(['H', 'P', 'H', 'P', 'HU', 'PU', 'HS', 'PS']), st.sampled_from(GRID)).map(list)
    b = st.tuples(st.just('B'), st.sampled_from(GRID), st.sampled_from([1, 1, 2, 3, 5, 'inf', 1.5, 2.75, 3.5])).map(list)
    return st.one_of(hp, hp, b)


def cases(max_len, horizons):
    def build(stations, c0, budget_inf, budget_fin, sink, T, pol, seed):
        budget = budget_fin if (c0 == 0 or not budget_inf) else 'inf'
        return {'src': [c0, budget], 'stations': stations, 'sink': sink, 'T': T, 'tb': [pol, seed]}
    return st.builds(build, st.lists(station(), min_size=0, max_size=max_len), st.sampled_from(GRID), st.booleans(),
                     st.sampled_from([0, 1, 2, 3, 5, 9, 14, 20, 2.5, 7.25, 0.5]), st.sampled_from(GRID), st.sampled_from(horizons),
                     st.sampled_from(['random', 'fifo', 'lifo', 'const']), st.integers(0, 10 ** 6))


def refill_cases(max_len, horizons):
    """Finite budgets that are raised while the line runs (adjust_part_count from an event): the part the source built
    in advance leaves when the budget covers it, and the source cycle keeps starting when the previous part left."""
    def build(case, budget, refills, prio):
        case = dict(case)
        case['src'] = [case['src'][0], budget]
        case['refills'] = [list(r) for r in refills]
        case['refill_prio'] = prio
        return case
    return st.builds(build, cases(max_len, horizons), st.sampled_from([0, 0, 1, 2, 3, 5, 1.5, 0.75]),
                     st.lists(st.tuples(st.sampled_from([0, 0.5, 1, 2, 2.5, 4, 7, 10, 13, 19.5]), st.sampled_from([1, 1, 2, 3, 6])),
                              min_size=1, max_size=4),
                     st.sampled_from([2, 2, 5, 7, 10, 4.5, 1.5]))


def valid(case):
    return (all(isinstance(q, int) and q > 0 and r >= 0 for r, q in case.get('refills', []))
            and case.get('refill_prio', 2) > 1 and case['T'] >= 0
            and (case['src'][0] > 0 or case['src'][1] != 'inf'))


def phases(tier):
    ex = Enumerate('documented-examples', lambda c, n: iter(EXAMPLES if c == 0 else []), 1,
                   describe='SingleProcessor (99) and BufferExample (10079)')
    if tier == 'quick':
        return [ex, Search('lines', lambda: cases(6, [0, 1, 2.5, 7, 13, 20, 31.5]), 1500, shards=4),
                Search('refills', lambda: refill_cases(5, [2.5, 7, 13, 20, 31.5]), 500, shards=4)]
    return [ex, Search('lines', lambda: cases(10, [0, 2.5, 13, 20, 31.5, 100, 500]), 5000, shards=16),
            Search('refills', lambda: refill_cases(8, [7, 13, 20, 31.5, 100]), 2000, shards=16)]


def run_case(case, ctx):
    ref, blocked, count = serial.check(case)
    classes = []
    if any(s[1] == 0 for s in case['stations']) or case['src'][0] == 0 or case['sink'] == 0:
        classes.append('zero-cycle-somewhere')
    if any(s[0] == 'B' and s[2] != 'inf' for s in case['stations']) and blocked:
        classes.append('finite-buffer-and-blocking')
    if any(s[0] == 'B' and s[1] > 0 for s in case['stations']):
        classes.append('buffer-delay')
    if ref and len(ref[0]) > len(ref[-1]):
        classes.append('horizon-cuts-part-mid-line')
    if case.get('refills'):
        classes.append('budget-raised-during-run')
    classes.append('tb:' + case['tb'][0])
    return {'nontrivial': blocked > 0 and count >= 3, 'classes': classes,
            'counters': {'parts_delivered': count, 'blocked_handovers': blocked}}
