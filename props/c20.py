"""C20 — system lifecycle: registration, single initialisation, late-created assets."""
from hypothesis import strategies as st

from engines import lifecycle
from vlib.runner import Search, Violation, repo_frames

ID = 'C20'
RULE = ('Hypothesis-generated lifecycle programs: 0-2 older Systems (with an asset each), then a System in which a '
        'self-contained sub-model containing every concrete asset kind (Source, PartProcessor with work order and '
        'failure, Buffer, PartHandler in a Group, GroupPath, complementary DecisionGates, PartHandler, PartBatcher, '
        'Sink, Maintainer, ActionScheduler, PeriodicSensor, OutputPartSensor, Cms; generated cycle times, capacities, '
        'intervals) is created inside an event at generated time T > 0 of a running simulation (twin A) or before the '
        'start (twin B), or between two simulate() calls; the source optionally with all defaults (no generator, cycle 0, finite budget); older systems optionally simulate before they are replaced; 1-3 consecutive simulate calls; tie-break policy fifo/lifo/const. Oracle: each asset is in '
        'the latest system\'s list exactly once and in no older one; late-created assets are initialised immediately, '
        'early ones only at the first simulate; an older System raises RuntimeError on simulate; find_assets equals '
        'the list comprehension over the registered assets for all 400 filter combinations tried; TWIN RELATION: all '
        'records, counters, uptime/utilisation, scheduler actions, sensor data, values of twin A shifted by -T equal '
        'those of twin B. Non-trivial = the asset set was created inside an event with T > 0 and afterwards produced '
        'at least 20 records. Second relation (attach): a device of kind sink / buffer / batcher / gate pair / group path / processor / handler is created at T downstream of a handler that HOLDS A BLOCKED PART (so the new device is offered a part during its own construction); twin: same line created before the start with the input of its first device blocked until T; all records and counters must be equal. Distinct = SHA-1 of the canonical case JSON.')
ASSUMPTIONS = ['objects are registered with the scheduler by an event right after creation in both twins (a late-created '
               'scheduler is initialised inside its constructor, so anything registered later misses the start-up action)',
               'ids are excluded from the comparison (they depend on how many assets were created earlier)',
               'tie-break policies fifo/lifo/const so that ties inside the sub-model resolve identically in both twins']


def on_repo_exception(case, e):
    return Violation('C20.crash', f'{type(e).__name__}: {e} at {repo_frames(e)}')


def cases():
    G = [0.5, 1, 1.5, 2]
    kit = st.fixed_dictionaries({
        'src_c': st.sampled_from(G), 'budget': st.sampled_from([5, 9, 'inf']), 'p_c': st.sampled_from(G),
        'b_delay': st.sampled_from([0, 0.5]), 'b_cap': st.sampled_from([1, 3]), 'gh_c': st.sampled_from([0, 0.5, 1]),
        'h_c': st.sampled_from(G), 'batch': st.sampled_from([None, 2]), 'k_c': st.sampled_from([0, 1]),
        'cyc': st.booleans(), 'iv': st.sampled_from([0.5, 1.25]), 'cap': st.sampled_from([2, 'inf']),
        'n': st.sampled_from([0, 1]), 'default_source': st.sampled_from([False, False, True]),
        'off': st.sampled_from([0, 0, 1, 2.5]), 'toucher': st.booleans(),
        'subclasses': st.sampled_from([False, False, True])})
    return st.fixed_dictionaries({
        'attach': st.sampled_from([None, None] + lifecycle.ATTACH_KINDS),
        'kit': kit, 'when': st.sampled_from([0.5, 1, 3, 4.25]), 'hz': st.sampled_from([6, 12, 20]),
        'split': st.sampled_from([[1], [1], [0.25, 0.75], [0.5, 0.125, 0.375]]), 'older': st.sampled_from([0, 0, 1, 2]),
        'older_ran': st.booleans(), 'between': st.sampled_from([False, False, True]), 'sibling': st.booleans(),
        'subsys': st.sampled_from([False, False, True]), 'multi': st.sampled_from([False, False, True]),
        'tb': st.tuples(st.sampled_from(['fifo', 'lifo', 'const']), st.just(0)).map(list)})


def valid(case):
    k = case['kit']
    return (len(case.get('tb', [])) == 2 and case['when'] > 0 and case['hz'] > 0 and k['iv'] > 0 and k['src_c'] > 0
            and k['b_cap'] >= 1 and (k['batch'] is None or k['batch'] >= 1) and k['n'] >= 0
            and (k['cap'] == 'inf' or k['cap'] >= 1) and (k['budget'] == 'inf' or k['budget'] >= 0)
            and all(k[x] >= 0 for x in ('p_c', 'b_delay', 'gh_c', 'h_c', 'k_c'))
            and bool(case['split']) and abs(sum(case['split']) - 1) < 1e-9 and all(f > 0 for f in case['split']))


def phases(tier):
    if tier == 'quick':
        return [Search('lifecycle-programs', cases, 150, shards=4),
                Search('after-worker-runs', multi_cases, 6, shards=1)]
    return [Search('lifecycle-programs', cases, 1500, shards=16),
            Search('after-worker-runs', multi_cases, 40, shards=1)]


def multi_cases():
    """The same programs, always with the simulate_multiple_times prelude, run in the checking process itself so that the
    worker-process variant (max_processes=1) can start its worker."""
    def on(case):
        case = dict(case)
        case['multi'] = True
        case['attach'] = None
        return case
    return cases().map(on)


def run_case(case, ctx):
    r = lifecycle.run(case)
    classes = ['late-creation-inside-event', 'attach:' + str(case.get('attach'))]
    if case['older']:
        classes.append('older-systems-that-ran' if case.get('older_ran') else 'older-systems')
    if case.get('between') and not case.get('attach'):
        classes.append('created-between-two-simulate-calls')
    if case['kit'].get('default_source'):
        classes.append('source-with-all-defaults')
    if len(case['split']) > 1:
        classes.append('continued-simulation')
    return {'nontrivial': r['records'] >= 20, 'classes': classes, 'counters': {'records': r['records'], 'finds': r['finds']}}
