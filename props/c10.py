"""C10 — waiting resource requests are served exactly once, in order, only when feasible."""
from engines import rmmachine, e2gen
from vlib.runner import Search

ID = 'C10'
WATCHDOG_IS_VIOLATION = True
RULE = ('Hypothesis-generated scripts on a real Environment + ResourceManager over resources {a,b,c}: add/remove '
        'capacity, reserve, full release, register a waiter with a behaviour, advance(d) (d in {0,1,2.5}); a '
        'behaviour is what the waiter\'s callback does when invoked: nothing / reserve what was asked / reserve '
        'something else / release an earlier reservation / add capacity / register another waiter (recursively). Two '
        'profiles: consume-or-register-only behaviours (exact (time, waiter) log compared with a reference '
        'waiting-list model) and all behaviours (model-independent invariants only); a third phase drives two pools over capacity (reservations over both pools in both key orders, capacity cut to or below usage) before waiters register and the reservations are released. Invariants always on: each '
        'callback at most once (enforced inside the callback), arguments (manager, equal copy of the request), the '
        'request fits at invocation, no earlier-registered still-waiting request fits at that moment (while only '
        'consuming callbacks have run), after every advance no registered request fits. Non-trivial = at least two '
        'waiters were called back at the same instant and at least one callback reserved; distinct = SHA-1 of the '
        'canonical case JSON.')
ASSUMPTIONS = ['feasibility is read through the public getters get_resource_usage/get_resource_capacity',
               'for scripts whose callbacks release or add capacity the relative order of call-backs inside one '
               'instant is not compared with the reference (the statement leaves the organisation of passes open)']


def phases(tier):
    if tier == 'quick':
        return [Search('consume-only-exact-log', lambda: e2gen.waiter_cases(25, True), 1500, shards=2, tag='consume'),
                Search('all-behaviours-invariants', lambda: e2gen.waiter_cases(25, False), 1500, shards=2, tag='all'),
                Search('over-committed-pools', lambda: e2gen.overcommit_waiter_cases(True), 1000, shards=2, tag='consume')]
    return [Search('consume-only-exact-log', lambda: e2gen.waiter_cases(40, True), 5000, shards=8, tag='consume'),
            Search('all-behaviours-invariants', lambda: e2gen.waiter_cases(40, False), 5000, shards=8, tag='all'),
            Search('over-committed-pools', lambda: e2gen.overcommit_waiter_cases(True), 4000, shards=8, tag='consume'),
            Search('over-committed-pools-all', lambda: e2gen.overcommit_waiter_cases(False), 4000, shards=8, tag='all')]


def run_case(case, ctx):
    pure, real = rmmachine.run_waiters(case)
    times = [t for t, _ in real.log]
    multi = any(times.count(t) > 1 for t in set(times))
    classes = []
    if multi:
        classes.append('two-callbacks-one-instant')
    if real.c['reserved_in_callback']:
        classes.append('callback-reserved')
    if real.c['from_inside']:
        classes.append('registered-from-callback')
    if real.waiting:
        classes.append('waiter-left-waiting-infeasible')
    if not real.all_order_fixed:
        classes.append('releasing-or-adding-callback')
    if len({w for _, w in real.log}) >= 3:
        classes.append('three-or-more-served')
    return {'nontrivial': multi and real.c['reserved_in_callback'] > 0, 'classes': classes,
            'counters': {'callbacks': real.c['callbacks'], 'registered': real.c['registered'],
                         'reserved_in_callback': real.c['reserved_in_callback']}}
