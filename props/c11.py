"""C11 — a processor works only while holding exactly the resources it requires."""
from props._e3 import make

globals().update(make(
    'C11', ('res',),
    [('contention', 7), ('general', 2), ('interrupt', 2), ('groups', 1)],
    'Oracle after every event: a processor with a part in process holds a reservation equal to its positive declared '
    'amounts; each pool\'s usage equals the sum held by processors; a failed processor holds nothing; at every '
    'quiescent instant no idle operational processor holds anything; and when a processor finishes a part, hands it '
    'over and accepts the next one within the same instant while only hand-over-or-higher priority events have run, '
    'the reservation object it holds afterwards is the one it held before (documented skip of release/re-acquire). '
    'Non-trivial = at least one processor had to wait for a pool (refused hand-over later accepted) AND at least one '
    'kept its reservation across back-to-back parts; distinct = SHA-1 of the canonical spec JSON.',
    lambda mon, case: mon.c['kept_reservation'] > 0 and mon.c['handovers_after_block'] > 0,
    None, quick=(1000, 4), thorough=(2000, 16)))
