"""C15 — recorded simulation data mirrors what actually happened."""
from props._e3 import make
from vlib.runner import Search, Violation

globals().update(make(
    'C15', ('log',),
    [('general', 4), ('interrupt', 3), ('contention', 2), ('buffers', 2), ('batching', 1), ('groups', 1)],
    'Oracle after every event: last level record of each buffer == level() (no record: 0); last resource_update of '
    'each pool == (usage, capacity) (no record: (0,0)); received_part records == the receive-callback occurrences '
    '(time, id, quality, value as read by the monitor inside the callback); produced_part records == finish-callback '
    'occurrences; one supplied_new_part record per part supplied and source.produced_parts == their number; every '
    'failure seen by the shutdown callbacks has a device_failure record at that time; enter_queue / '
    'start_work_order / finish_work_order records == accepted requests / start hooks / end hooks; sink counter == '
    'leaves of its received records. In a quarter of the cases simulate(trace=True) (HOME pointed at a scratch '
    'directory): the exported JSON satisfies executed <= trace <= dispatched as subsequences of (time, asset id, '
    'action name, message, priority). Non-trivial = at least 3 kinds of records and at least 50 records; '
    'distinct = SHA-1 of the canonical spec JSON.',
    lambda mon, case: mon.c['records'] >= 50 and len([k for k in mon.env.simulation_data if mon.env.simulation_data[k]]) >= 3,
    lambda mon, case: (['traced'] if mon.trace_on else []) + (['traced-with-work-order'] if mon.trace_on and mon.m.wo_started else []),
    quick=(300, 4), thorough=(1500, 16), trace_p=0.25, noisy_p=0.3))


# "... and schedule record per corresponding occurrence": ActionSchedulers do not occur in E3 models, so a second phase
# runs E6 timetables and checks the schedule_update records and the work-order records of E5 scenarios.
_e3_phases = phases
_e3_run = run_case


def phases(tier):
    from props import c18, c12
    n = 300 if tier == 'quick' else 2000
    sh = 2 if tier == 'quick' else 8
    return _e3_phases(tier) + [Search('scheduler-records', lambda: c18.cases(6, [5, 12, 30]), n, shards=sh, tag='sched'),
                               Search('maintainer-records', lambda: c12.cases(12, same_names=False), n, shards=sh, tag='maint'),
                               Search('trace-with-nested-runs', trace_cases, 2 * n, shards=sh, tag='trace')]


def trace_cases():
    """E1 histories (schedule / pause / cancel / run, runs also started from inside event actions) in which every run()
    call carries its own trace flag."""
    from hypothesis import strategies as st
    from engines import e1gen

    def build(case, flags):
        case = dict(case)
        case['trace'] = flags
        return case
    return st.builds(build, e1gen.cases(14, with_past=False), st.lists(st.booleans(), min_size=1, max_size=5).map(
        lambda f: f if any(f) else [True] + f))


def valid(case):
    from engines import e3gen
    if 'ops' in case:
        from engines import e1gen
        return e1gen.valid_case(case) and bool(case.get('trace')) and all(isinstance(x, bool) for x in case['trace'])
    return e3gen.well_posed(case) if 'devs' in case else True


def run_case(case, ctx):
    if 'ops' in case:
        from engines import tracehist
        m = tracehist.run(case)
        cl = ['trace-history']
        if m.c['nested_in_traced']:
            cl.append('run-nested-in-traced-run')
        if m.c['untraced_after_traced']:
            cl.append('untraced-run-after-traced-run')
        return {'nontrivial': m.c['traced_top_runs'] >= 1 and m.c['trace_entries'] >= 3 and
                (m.c['nested_in_traced'] > 0 or m.c['untraced_after_traced'] > 0), 'classes': cl,
                'counters': {'trace_entries': m.c['trace_entries'], 'nested_in_traced': m.c['nested_in_traced']}}
    if 'timetable' in case:
        from engines import sched
        try:
            r = sched.run(case)
        except Violation as v:
            if v.oracle == 'C18.records':
                raise Violation('C15.schedule-record', v.msg)
            return {'nontrivial': False, 'classes': ['scheduler-case-other-oracle']}
        return {'nontrivial': r['boundaries'] >= 3, 'classes': ['scheduler-records'], 'counters': {'records': r['boundaries']}}
    if 'requests' in case:
        from engines import maint
        try:
            h = maint.run(case)
        except Violation:
            return {'nontrivial': False, 'classes': ['maintainer-case-other-oracle']}
        sd = h.sys.simulation_data
        now = h.env.now
        eq = [(r[0], r[1], r[2]) for r in sd.get('enter_queue', {}).get('m', [])]
        st = [(r[0], r[1], list(r[2]) if isinstance(r[2], tuple) else r[2]) for r in sd.get('start_work_order', {}).get('m', [])]
        fi = sd.get('finish_work_order', {}).get('m', [])
        if st != [(t, tg, tag) for (t, tg, tag) in h.starts_log]:
            raise Violation('C15.work-order', f'start_work_order records {st[:5]} differ from the start hook occurrences '
                            f'{h.starts_log[:5]}')
        if len(eq) != h.c['accepted']:
            raise Violation('C15.work-order', f'{len(eq)} enter_queue records for {h.c["accepted"]} accepted requests')
        if len(fi) != h.c['ends']:
            raise Violation('C15.work-order', f'{len(fi)} finish_work_order records for {h.c["ends"]} end hook occurrences')
        return {'nontrivial': len(st) >= 3, 'classes': ['maintainer-records'], 'counters': {'records': len(eq) + len(st) + len(fi)}}
    return _e3_run(case, ctx)
