"""C15 — recorded simulation data mirrors what actually happened."""
from props._e3 import make

globals().update(make(
    'C15', ('log',),
    [('general', 4), ('interrupt', 3), ('contention', 2), ('buffers', 2), ('batching', 1), ('groups', 1)],
    'Oracle after every event: last level record of each buffer == level() (no record: 0); last resource_update of '
    'each pool == (usage, capacity) (no record: (0,0)); received_part records == the receive-callback occurrences '
    '(time, id, quality, value as read by the monitor inside the callback); produced_part records == finish-callback '
    'occurrences; one supplied_new_part record per part supplied and source.produced_parts == their number; every '
    'failure seen by the shutdown callbacks has a device_failure record at that time; enter_queue / '
    'start_work_order / finish_work_order records == accepted requests / start hooks / end hooks; sink counter == '
    'leaves of its received records. In a quarter of the cases simulate(trace=True) (HOME pointed at a scratch '
    'directory): the exported JSON satisfies executed <= trace <= dispatched as subsequences of (time, asset id, '
    'action name, message, priority). Non-trivial = at least 3 kinds of records and at least 50 records; '
    'distinct = SHA-1 of the canonical spec JSON.',
    lambda mon, case: mon.c['records'] >= 50 and len([k for k in mon.env.simulation_data if mon.env.simulation_data[k]]) >= 3,
    lambda mon, case: (['traced'] if mon.trace_on else []) + (['traced-with-work-order'] if mon.trace_on and mon.m.wo_started else []),
    quick=(300, 4), thorough=(1500, 16), trace_p=0.25))
