"""C02 — parts are conserved: never duplicated, dropped or invented."""
from engines import e3gen, linefuzz
from vlib.runner import Search, Violation

ID = 'C02'
RULE = ('Hypothesis-generated whole production models (E3: 1-3 sources incl. batch sources, 1-5 stages of parallel '
        'handlers / processors with resource needs / buffers / batchers / complementary gate pairs / group paths '
        'into shared, re-entrant, chained and nested groups, 1-2 sinks; timed external actions with generated '
        'priorities: failures, shutdown/restore, work orders, block toggles, pool changes, budget adjustments, '
        'one-shot offsets, mid-run rewiring; tie-break policy; split runs). Oracle after EVERY executed event: '
        'census over devices, sinks and reported losses - every generated leaf part exactly once, nothing '
        'invented, slots hold at most one part, failure log == reported losses, source budget with the '
        'documented clamp. Non-trivial = at least one hand-over between two real devices that was first refused '
        '(part ready-but-blocked at a quiescent instant) and later succeeded AND at least one part delivered or '
        'lost; distinct = SHA-1 of the canonical spec JSON.')
ASSUMPTIONS = ['parts are located by reading PartHandler._part/_output, Buffer._buffer, PartBatcher._in_progress_batch, '
               'Sink.collected_parts (anchors of C02)', 'models obey the well-posedness rules W1-W9 of DESIGN 2.7']
MIX = [('general', 4), ('groups', 3), ('contention', 1), ('buffers', 1), ('batching', 1), ('interrupt', 1), ('rework', 1),
       ('parallel', 1)]      # not 'values': nested batches are counted top-level by sinks and buffers


valid = e3gen.well_posed


def phases(tier):
    if tier == 'quick':
        return [Search('models', lambda: e3gen.specs(MIX), 800, shards=4)]
    return [Search('models', lambda: e3gen.specs(MIX), 1500, shards=16)]


def on_repo_exception(case, e):
    return Violation('C02.crash', f'{type(e).__name__}: {e} at {linefuzz_frames(e)}')


def linefuzz_frames(e):
    from vlib.runner import repo_frames
    return repo_frames(e)


def run_case(case, ctx):
    mon = linefuzz.run_spec(case, ('cons',))
    dl = linefuzz.delivered(mon)
    classes = []
    if any(d['k'] == 'GP' for d in case['devs']):
        classes.append('part-through-group')
    if any(d.get('batch') is not None for d in case['devs'] if d['k'] == 'S'):
        classes.append('batch-source')
    return linefuzz.common_result(mon, mon.c['handovers_after_block'] > 0 and (dl > 0 or mon.lost), classes)
