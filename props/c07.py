"""C07 — pausing, resuming and cancelling events preserves remaining delays (DESIGN section 4, C07)."""
import itertools

from engines import envmachine, e1gen
from vlib.runner import Search, Enumerate, Machine, Violation

ID = 'C07'
RULE = ('(i) complete enumeration of all operation sequences of the stated length over the 11-letter alphabet '
        '{sched(a1,+1), sched(a2,+1), sched(a1,+2.5), pause a1, pause a2, unpause a1, unpause a2, cancel a1, '
        'cancel a2, step, run(1.5)} after the prologue [sched(a1,+1), run(0.75)] (clock > 0 before any pause); '
        'every prefix is checked because the oracle runs after every operation. (ii) Hypothesis-generated '
        'sequences (up to 60 operations; dyadic times; asset ids {1,2,3}, a non-matching id and None; nested '
        'programs executed from inside event actions). (iii) a Hypothesis RuleBasedStateMachine whose pause / unpause / cancel rules draw the asset from those that currently have queued resp. paused events (state-dependent generation; the history is recorded as the same JSON operation list). Oracle: reference queue model interpreted in lock-step; '
        'pending (time,event) pairs and the paused set compared after every operation, every execution checked '
        'against the model time. Non-trivial = some event was paused at clock > 0, resumed at a strictly later '
        'clock and then executed; distinct = SHA-1 of the canonical case JSON.')
ASSUMPTIONS = ['Environment._events / _paused_events hold the pending and paused events (anchors of C07)',
               'times on the dyadic grid so that original + (now - paused_at) is exact in binary64; in the float-noise phase '
               '(decimal literals such as 1.1, 5.3) the reference computes the same expression in binary64 and, like the '
               'repaired code, never lets a resumed event be due before the current time']

ALPHABET = [['s', 1, 1, 5, []], ['s', 2, 1, 5, []], ['s', 1, 2.5, 5, []],
            ['p', 1], ['p', 2], ['u', 1], ['u', 2], ['c', 1], ['c', 2], ['step'], ['run', 1.5]]
PROLOGUE = [['s', 1, 1, 5, []], ['run', 0.75]]


def space(length):
    def it(chunk, n):
        for i, first in enumerate(ALPHABET):
            for j, second in enumerate(ALPHABET):
                if (i * len(ALPHABET) + j) % n != chunk:
                    continue
                for rest in itertools.product(ALPHABET, repeat=length - 2):
                    yield {'weights': [0.5], 'ops': PROLOGUE + [first, second] + list(rest)}
    return it


def valid(case):
    return e1gen.valid_case(case)


def phases(tier):
    if tier == 'quick':
        return [Enumerate('enumeration-len5', space(5), 16, describe='11^5 = 161051 sequences'),
                Search('hypothesis-sequences', lambda: e1gen.cases(40, PROLOGUE, with_past=False), 600, shards=4),
                Machine('stateful-machine', envmachine.env_machine(('C07',), summarise), 250, 40, shards=4),
                Search('float-noise-sequences', lambda: e1gen.noise_cases(10), 800, shards=4)]
    return [Enumerate('enumeration-len6', space(6), 64, describe='11^6 = 1771561 sequences'),
            Search('hypothesis-sequences', lambda: e1gen.cases(60, PROLOGUE, with_past=False), 4000, shards=16),
            Machine('stateful-machine', envmachine.env_machine(('C07',), summarise), 1500, 80, shards=16),
            Search('float-noise-sequences', lambda: e1gen.noise_cases(16), 4000, shards=16)]


def run_case(case, ctx):
    return summarise(envmachine.run(case, ('C07',)))


def summarise(m):
    resumed_later = 0
    # non-trivial: an event paused at clock > 0, resumed at a later clock, and executed
    for r in m.recs:
        if r.was_paused and r.state == 'x' and r.time > r.orig:
            resumed_later += 1
    classes = []
    if resumed_later:
        classes.append('resumed-later-and-ran')
    if any(r.cancelled and r.was_paused for r in m.recs):
        classes.append('cancel-while-paused')
    if any(r.inner for r in m.recs):
        classes.append('scheduled-from-inside-action')
    if any(r.state == 'p' for r in m.recs):
        classes.append('still-paused-at-end')
    if any((not r.was_paused) and r.born > 0 and r.state == 'x' for r in m.recs):
        classes.append('scheduled-after-pause-unaffected')
    return {'nontrivial': resumed_later > 0, 'classes': classes,
            'counters': {'dispatches': m.c['dispatches'], 'resumed_runs': m.c['resumed_runs'],
                         'pauses_at_pos_clock': m.c['pauses_at_pos_clock'],
                         'cancelled_skipped': m.c['cancelled_skipped']}}
