"""C08 — routing fidelity: parts follow the configured routes and their history says so."""
from props._e3 import make

globals().update(make(
    'C08', ('route',),
    [('groups', 6), ('general', 4), ('parallel', 8), ('rework', 3), ('batching', 1), ('contention', 1)],
    'Oracle: a route graph derived from the SPEC (rewiring included from the moment it happened). At every quiescent '
    'instant and at the end, for every generated leaf part: its routing history starts with its source; every '
    'consecutive pair is a configured edge, where a group path leads to the input device(s) of its group and an output '
    'device of the group leads to a downstream of the innermost open path (nested groups: innermost first); the last '
    'element is the device that currently holds the part (no leftovers from refused hand-overs, no gaps); the '
    'group-path stack the part carries equals a stack implied by its history. In every receive callback: the device '
    'and every gate / group path passed on the way in were not input-blocked, every gate passed accepts the part '
    '(predicate recomputed from the spec - on the immutable name index for the complementary pairs, on the mutable quality for the rework-loop gates); sinks\' collected lists are in arrival order. Idle-longest: when a holding '
    'device whose direct downstreams are all single-slot devices hands a part to X, no sibling able to take it has '
    'been idle longer than X under every admissible reading of "idle since". Non-trivial = at least one part entered '
    'a group used by at least two paths and left it AND at least one refused hand-over later succeeded; distinct = '
    'SHA-1 of the canonical spec JSON.',
    lambda mon, case: mon.c['handovers_after_block'] > 0 and shared_group_left(mon, case),
    lambda mon, case: (['contested-choice'] if mon.c['contested'] else [])
    + (['nested-group'] if len(case['groups']) > 1 else []) + (['rewired'] if mon.m.rewired else [])
    + (['rework-loop-gate-on-mutable-state'] if case.get('loops') else []),
    quick=(1200, 4), thorough=(3000, 16)))


def shared_group_left(mon, case):
    paths = {}
    for d in case['devs'] + [x for g in case['groups'] for x in g['devs']]:
        if d['k'] == 'GP':
            paths.setdefault(d['g'], []).append(d['n'])
    shared = {n for g, ns in paths.items() if len(ns) >= 2 for n in ns}
    if not shared:
        return False
    for p in mon.m.generated:
        h = [x.name for x in p._routing_history]
        for i, nm in enumerate(h):
            if nm in shared and not p._group_pathing and len(h) > i + 2:
                return True
    return False
