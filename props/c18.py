"""C18 — action schedules follow their timetable."""
from hypothesis import strategies as st

from engines import sched
from vlib.runner import Search

ID = 'C18'
RULE = ('Hypothesis-generated timetables of 1-6 entries (durations on the dyadic grid incl. 0 with positive total, '
        'repeated states), cyclical / non-cyclical / default; objects registered before the run (default action or '
        'per-object override, duplicates incl. with a different override); states may be None or 0; the list handed to the constructor is edited by the caller afterwards; the scheduler may also be created between two simulate() calls and register/unregister/re-register '
        'calls issued from events at generated times with distinct generated priorities (below and above the '
        'scheduler\'s own transition priority); the scheduler optionally created inside an event at t0 > 0 (its timetable then starts at t0); every action also reads current_state and must see the new state; horizons up to 50 periods; split runs; all tie-break policies. '
        'Oracle: independent timetable evaluator (prefix sums, modulo the period, last state forever): '
        'current_state sampled every 1/4 time unit by lowest-priority observers and the schedule_update records '
        'equal the prescribed (time, state) sequence; the invocation log equals, at start-up and at each state '
        'change, one call per object registered at that moment in registration order with (scheduler, object, '
        'current time, new state), override iff given; return values of register/unregister. Non-trivial = (at '
        'least 2 full periods or the terminal state reached) AND at least one registration change during the run; '
        'distinct = SHA-1 of the canonical case JSON.')
ASSUMPTIONS = ['registration changes issued at one instant get distinct priorities, none equal to the transition '
               'priority (their relative order would otherwise be a tie-break outcome)',
               'cyclical timetables have positive total duration (W2)']
G = [0, 0.25, 0.5, 1, 1, 2, 3.5, 1 / 3, 1 / 7]      # also durations that need more than 9 decimals
OBJS = ['o1', 'o2', 'o3']


def cases(max_timed, horizons):
    def build(tt, cyc, pre, timed, T, split, pol, seed, late, between, init, mach, zero_first):
        tt = [list(x) for x in tt]
        if sum(d for d, _ in tt) == 0:
            tt[0][0] = 1
        out = []
        used = {}
        for (t, p, k, o, ov) in timed:
            while (t, p) in used or p == sched.BOUNDARY_PRIO:
                p = p + 0.25
            used[(t, p)] = 1
            out.append([t, p, k, o, ov])
        Ts = [T] if not split else [T / 4, 3 * T / 4]
        if zero_first and not between:
            Ts = [0] + Ts      # a zero-length first run: initialisation and start-up happen in it
        if between and split:
            late = T / 4
        else:
            between = False
        if late:
            # registration calls only make sense once the scheduler exists
            out = [x for x in out if x[0] > late or (x[0] == late and x[1] < 13 and not between)]
        return {'timetable': tt, 'cyclical': cyc, 'pre': [list(x) for x in pre], 'timed': out, 'T': Ts,
                'tb': [pol, seed], 'late': late, 'between': between, 'init': bool(init and not late and not between), 'machine': mach}
    entry = st.tuples(st.sampled_from(G), st.sampled_from(['a', 'b', 'c', None, 0]))
    pre = st.lists(st.tuples(st.sampled_from(OBJS), st.booleans()), max_size=4)
    timed = st.lists(st.tuples(st.sampled_from([0, 0.5, 1, 1.75, 2, 3, 4.5, 7, 10]),
                               st.sampled_from([2, 3, 5, 8, 10, 11.5, 12]),
                               st.sampled_from(['reg', 'reg', 'unreg']), st.sampled_from(OBJS), st.booleans()),
                     max_size=max_timed)
    return st.builds(build, st.lists(entry, min_size=1, max_size=6), st.sampled_from([True, False, None, 0, 1]), pre, timed,
                     st.sampled_from(horizons), st.booleans(), st.sampled_from(['random', 'fifo', 'lifo', 'const']),
                     st.integers(0, 10 ** 6), st.sampled_from([None, None, None, 0.5, 1.75, 2.5]),
                     st.sampled_from([False, False, False, True]), st.sampled_from([False, False, False, False, True]),
                     st.sampled_from([None, None, [0.75, 2.25, 3.5], [1, 1.5, 2], [0.25, 4.75, 0.5]]),
                     st.sampled_from([False, False, False, True]))


def valid(case):
    return (len(case.get('tb', [])) == 2 and bool(case['T']) and all(t >= 0 for t in case['T']) and sum(case['T']) > 0 and bool(case['timetable'])
            and (sum(d for d, _ in case['timetable']) > 0))


def phases(tier):
    if tier == 'quick':
        return [Search('timetables', lambda: cases(6, [5, 12, 30]), 2000, shards=4)]
    return [Search('timetables', lambda: cases(10, [5, 12, 30, 100]), 4000, shards=16)]


def run_case(case, ctx):
    r = sched.run(case)
    classes = []
    if r['periods'] >= 2:
        classes.append('two-or-more-periods')
    if r['terminal']:
        classes.append('terminal-state-reached')
    if r['changes_during_run']:
        classes.append('registration-change-during-run')
    if any(d == 0 for d, _ in case['timetable']):
        classes.append('zero-duration-state')
    if len(case['T']) > 1:
        classes.append('split-run')
    if case.get('init'):
        classes.append('scheduler-created-inside-initialize')
    if case.get('late'):
        classes.append('scheduler-created-between-runs' if case.get('between') else 'scheduler-created-while-running')
    sts = [s for _, s in case['timetable']]
    if any(a == b for a, b in zip(sts, sts[1:] + sts[:1])):
        classes.append('same-state-twice-in-a-row')
    return {'nontrivial': (r['periods'] >= 2 or r['terminal']) and r['changes_during_run'] > 0, 'classes': classes,
            'counters': {'invocations': r['invocations'], 'boundaries': r['boundaries']}}
