"""C17 — batching keeps order and exact batch sizes."""
from props._e3 import make

globals().update(make(
    'C17', ('batch', 'buf', 'cons', 'route'),
    [('batching', 8), ('buffers', 2), ('general', 1)],
    'Oracle after every event, per batcher: arrival leaf sequence (receive callback, batches front to back) == '
    'departure leaf sequence (what the next holding device receives from it) + leaves still inside in the order '
    '[waiting to leave, batch in progress, input left to unpack]; every emitted batch has exactly n parts, single '
    'mode emits only single parts; nothing is accepted while an output is waiting to leave; buffer level and sink '
    'counts count every leaf (C05 and census oracles on); every routing-history update on a batch reached all its '
    'leaves: each leaf history is a configured route ending at its holder (routing oracle on). Non-trivial = an input batch whose size does not divide the '
    'output size was split across two output batches (a batch in progress coexisted with unpacked input left) while '
    'the consumer was blocked; distinct = SHA-1 of the canonical spec JSON.',
    lambda mon, case: any(b['emitted'] >= 2 for b in mon.bat.values()) and mon.c['handovers_after_block'] > 0,
    None, quick=(400, 4), thorough=(2000, 16)))
