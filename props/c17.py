"""C17 — batching keeps order and exact batch sizes."""
from props._e3 import make

globals().update(make(
    'C17', ('batch', 'buf', 'cons', 'route'),
    [('batching', 8), ('buffers', 2), ('general', 1)],
    'Oracle after every event, per batcher: arrival leaf sequence (receive callback, batches front to back) == '
    'departure leaf sequence (what the next holding device receives from it) + leaves still inside in the order '
    '[waiting to leave, batch in progress, input left to unpack]; every emitted batch has exactly n parts, single '
    'mode emits only single parts; nothing is accepted while an output is waiting to leave; buffer level and sink '
    'counts count every leaf (C05 and census oracles on); every routing-history update on a batch reached all its '
    'leaves: each leaf history is a configured route ending at its holder (routing oracle on). Non-trivial = an input batch whose size does not divide the '
    'output size was split across two output batches (a batch in progress coexisted with unpacked input left) while '
    'the consumer was blocked; distinct = SHA-1 of the canonical spec JSON.',
    lambda mon, case: any(b['emitted'] >= 2 for b in mon.bat.values()) and mon.c['handovers_after_block'] > 0,
    None, quick=(550, 4), thorough=(2000, 16)))


# "a batch's routing history updates are applied to all parts it contains" also holds for batches that travel inside other
# batches: a second phase runs the nested-batch lines of the value profile with the routing oracle alone (census and
# buffer oracles count only the top level of a nested batch, see W-list).
_e3_phases = phases
_e3_run = run_case


def phases(tier):
    from engines import e3gen
    from vlib.runner import Search
    n, sh = (150, 2) if tier == 'quick' else (1500, 8)
    return _e3_phases(tier) + [Search('nested-batches-routing', lambda: e3gen.specs([('values', 1)]), n, shards=sh)]


def run_case(case, ctx):
    if case.get('profile') == 'values':
        from engines import linefuzz
        mon = linefuzz.run_spec(case, ('route',))
        nested = any(isinstance(d.get('batch'), dict) for d in case['devs'])
        return linefuzz.common_result(mon, nested and mon.c['events'] > 20, ['nested-batches'] if nested else [])
    return _e3_run(case, ctx)
