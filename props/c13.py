"""C13 — shutdown, failure and restore: machine state, lost parts, uptime accounting."""
from props._e3 import make

globals().update(make(
    'C13', ('acct', 'cycle'),
    [('interrupt', 7), ('contention', 2), ('general', 2)],
    'Oracle: reference state machine per processor driven by the observed shutdown/restored/receive/finish '
    'callbacks (three callbacks of each kind registered): no part accepted or finished while down; a failure '
    'removes exactly the part in process, the same object is passed to every shutdown callback with '
    'is_failure=True and named once in the failure log (also when the machine was already shut down); redundant '
    'shutdown/restore produce no callback; after every event uptime == integrated operational time and '
    'utilization_time == integrated operational in-process time (exact on the grid); callbacks of a kind run once '
    'per occurrence in registration order; a default work order (real Maintainer, PartProcessor subclass reporting '
    'a duration) ends exactly duration after its start hook; the cycle oracle of C06 is on as well (utilisation is only the time spent processing if a part is released after exactly its cycle of operational time). Non-trivial = at least one failure with a part in '
    'process AND at least one maintenance shutdown with a part in process; distinct = SHA-1 of the canonical spec. A quarter of the models use ordinary decimal times (cycle 1.1, maintenance at 7.3, ...): there the same identities are demanded within 1e-9 (accumulated rounding) instead of exactly.',
    lambda mon, case: any(r.fail_with_part for r in mon.refs.values()) and any(r.maint_with_part for r in mon.refs.values()),
    lambda mon, case: (['work-order-started'] if mon.m.wo_started else []),
    quick=(1000, 4), thorough=(2500, 16), noisy_p=0.25))
