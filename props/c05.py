"""C05 — buffer contract: capacity, level, FIFO order and minimum delay."""
from props._e3 import make

globals().update(make(
    'C05', ('buf',),
    [('buffers', 6), ('noise', 4), ('general', 2), ('batching', 1), ('contention', 1)],
    'Oracle after every event, per buffer: level() == number of leaf parts stored (every part of a batch counts) <= '
    'capacity; the stored sequence evolves only by removing a prefix (head first) and appending at the tail, in '
    'arrival order; a part leaves no earlier than arrival + minimum delay - exact on the dyadic grid, and within '
    '2 ulp(clock) in exact Fraction arithmetic on the non-dyadic "noise" profile (delays/cycles 0.1, 0.3, 1/3, '
    '1e-3, 3.7). Non-trivial = some buffer was full at least once and released at least 3 parts; distinct = SHA-1 '
    'of the canonical spec JSON.',
    lambda mon, case: any(b['full'] and b['released'] >= 3 for b in mon.buf.values()),
    lambda mon, case: (['buffer-held-batch'] if any(b['batch'] for b in mon.buf.values()) else [])
    + (['buffer-was-full'] if any(b['full'] for b in mon.buf.values()) else []),
    quick=(900, 4), thorough=(3000, 16)))
