"""C03 — no lost wake-up: a part that can move does move (flow liveness)."""
from props._e3 import make
from engines.linefuzz import delivered

globals().update(make(
    'C03', ('wake',),
    [('contention', 4), ('general', 3), ('groups', 4), ('buffers', 3), ('noise', 2), ('interrupt', 2), ('batching', 1), ('rework', 1), ('parallel', 1)],
    'Oracle (counterfactual probe): at every quiescent instant (the clock is about to advance) every device holding a '
    'READY part (operational handler/processor/batcher with an output part; source with output and budget left; '
    'buffer whose head has waited its minimum delay) is deep-copied together with the whole System and the part is '
    'offered on the copy to each downstream in sorted order; any acceptance is a lost wake-up. A case in which '
    '20000 consecutive events execute without the clock advancing is a zero-time livelock (the run would not '
    'return); a per-case watchdog hit is a violation too (statement: a finite-horizon run of a well-posed model '
    'always returns). Non-trivial = at least one ready part was probed (found genuinely blocked) at a quiescent '
    'instant AND that same part was handed over later. The mix includes the float-noise buffer profile (decimal delays and cycle times such as 1.1 / 7.3): the probe needs no exact arithmetic; distinct = SHA-1 of the canonical spec JSON.',
    lambda mon, case: mon.c['probes'] > 0 and mon.c['handovers_after_block'] > 0,
    lambda mon, case: sorted({'unblock:' + a[1] for a in mon.m.action_log
                              if a[1] in ('restore', 'block', 'addres', 'adjust', 'rewire_add', 'maint', 'wo')}),
    quick=(350, 4), thorough=(1200, 16), watchdog=True,
    assumptions=['the probe works on copy.deepcopy(System); harness callbacks are inert while probing']))
