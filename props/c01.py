"""C01 — events run in time-then-priority order; clock monotone; at most once; run(d) semantics."""
from engines import envmachine, e1gen, e3gen, linefuzz
from vlib.runner import Search, Machine, Violation, repo_frames

ID = 'C01'
WATCHDOG_IS_VIOLATION = True   # the statement says the run ends / the line reaches its horizon
RULE = ('Hypothesis-generated operation histories on a bare Environment: schedule (assets {1,2,3,9}, dyadic delays, '
        'every built-in priority above TERMINATE and fractional ones k+-0.1 / k+-0.5), schedule-in-the-past, pause, '
        'unpause, cancel, step, run(d) incl. d=0 and consecutive runs; each scheduled event carries a generated '
        'program (depth <= 2) of the same operations that its action performs when it executes; tie-break weights '
        'from a generated script with repeats. Oracle: validity predicate at every dispatch (minimum time, then '
        'maximum priority among live queued events - independent of Event.__lt__), clock == event time and '
        'monotone, at most once, ValueError + unchanged queue for the past, run(d) completeness/exactness against '
        'the reference model. Non-trivial = at least one dispatch was chosen among >=2 live events with equal '
        'time and different priority AND at least one event was inserted from inside a running action (for the '
        'second phase - the same dispatch predicate applied to generated multi-device E3 models - at least one '
        'priority tie among real device events). A float-noise phase repeats the histories with non-dyadic times (0.1, 0.3, 1.1, 7.3-style values, 1/3) and events that are due in the very instant their asset is paused; there the oracle is restricted to what must hold under any rounding: the clock never decreases, the dispatched event has the smallest time / highest priority of the live queue, run(d) ends at the float t0+d; '
        'distinct = SHA-1 of the canonical case JSON.')
ASSUMPTIONS = ['Environment._events holds exactly the pending events (anchor of C01); cancelled events are not live',
               'user events use priorities above EventType.TERMINATE (the documented custom-priority range)',
               'asset id -1 (owner of the TERMINATE event) is never paused/cancelled by the generated histories']


MIX = [('general', 4), ('contention', 2), ('interrupt', 2), ('groups', 1), ('buffers', 1)]


def with_zero_runs(strategy):
    """A simulate(0) call before the first run or between two runs: it executes what is due at the current instant
    (initial events; events created by API calls made between the runs) and leaves the clock where it is."""
    from hypothesis import strategies as st

    def add(spec, where):
        if where == 0:
            return spec
        spec = dict(spec)
        T = list(spec['T'])
        if where == 1 or len(T) == 1:
            spec['T'] = [0] + T
            spec['between'] = [[b[0] + 1] + list(b[1:]) for b in spec.get('between', [])]
        else:
            # after the first run and the API calls that follow it
            spec['T'] = [T[0], 0] + T[1:]
            spec['between'] = [[b[0] if b[0] == 0 else b[0] + 1] + list(b[1:]) for b in spec.get('between', [])]
        if isinstance(spec.get('trace'), list):
            spec['trace'] = True
        return spec

    def direct(spec, use):
        # one of the later stretches is run with Environment.run instead of System.simulate
        if use and len(spec['T']) > 1 and not spec.get('trace'):
            spec = dict(spec)
            spec['via_env'] = [1 + (use % (len(spec['T']) - 1))] if len(spec['T']) > 2 else [1]
            if len(spec['T']) == 2:
                a = spec['T'][1]
                spec['T'] = [spec['T'][0], a / 2, a / 2] if a >= 1 else spec['T']
        return spec
    return st.builds(direct, st.builds(add, strategy, st.sampled_from([0, 0, 0, 1, 2])), st.sampled_from([0, 0, 1, 2, 3]))


def phases(tier):
    if tier == 'quick':
        return [Search('hypothesis-histories', lambda: e1gen.cases(40), 1500, shards=4, tag='histories'),
                Search('device-models', lambda: with_zero_runs(e3gen.specs(MIX, noisy_p=0.5)), 250, shards=4, tag='models'),
                Machine('stateful-machine', envmachine.env_machine(('C01',), summarise), 250, 40, shards=4),
                Search('float-noise-histories', lambda: e1gen.noise_cases(10), 1500, shards=4, tag='noise')]
    return [Search('hypothesis-histories', lambda: e1gen.cases(80), 3000, shards=16, tag='histories'),
            Search('device-models', lambda: with_zero_runs(e3gen.specs(MIX, noisy_p=0.5)), 1500, shards=16, tag='models'),
            Machine('stateful-machine', envmachine.env_machine(('C01',), summarise), 1500, 80, shards=16),
            Search('float-noise-histories', lambda: e1gen.noise_cases(16), 6000, shards=16, tag='noise')]


def on_repo_exception(case, e):
    return Violation('C01.crash', f'{type(e).__name__}: {e} at {repo_frames(e)}')


def valid(case):
    if 'devs' in case:
        # zero-length runs are part of this phase's domain
        c = dict(case)
        c['T'] = [t for t in case['T'] if t != 0] or [1]
        if len(c['T']) != len(case['T']):
            c.pop('between', None)
        return e3gen.well_posed(c) and all(t >= 0 for t in case['T']) and sum(case['T']) > 0
    return e1gen.valid_case(case)


def run_case(case, ctx):
    if 'devs' in case:
        # (b) the same validity predicate on every dispatch of a generated multi-device model
        mon = linefuzz.run_spec(case, ('head',))
        ties = mon.c['prio_ties']
        return {'nontrivial': ties > 0 and mon.c['events'] > 30,
                'classes': ['model-run'] + (['model-priority-tie'] if ties else []) + (['model-decimal-times'] if 'noisy' in case.get('profile', '') else []),
                'counters': {'dispatches': mon.c['events'], 'prio_ties': ties}}
    return summarise(envmachine.run(case, ('C01',)))


def summarise(m):
    c = m.c
    classes = []
    if c['prio_ties']:
        classes.append('priority-tie-decided')
    if c['frac_ties']:
        classes.append('fractional-priority-tie')
    if c['inner_inserts']:
        classes.append('insert-from-inside-action')
    if c['unpause_vs_fresh']:
        classes.append('unpause-shifted-vs-fresh')
    if c['runs'] >= 2:
        classes.append('split-run')
    if c['past_rejected']:
        classes.append('past-rejected')
    if c['weight_ties']:
        classes.append('equal-time-equal-priority')
    return {'nontrivial': c['prio_ties'] > 0 and c['inner_inserts'] > 0, 'classes': classes,
            'counters': {k: c[k] for k in ('dispatches', 'prio_ties', 'frac_ties', 'inner_inserts', 'runs',
                                            'past_rejected', 'cancelled_skipped')}}
