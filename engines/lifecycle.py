"""E8: system lifecycle - registration, single initialisation, late-created assets (twin relation).

case = {"kit": {...parameters of a self-contained sub-model...}, "when": T (creation inside an event at time T),
        "hz": horizon after creation, "split": [fractions] (consecutive simulate calls), "older": k (systems created
        before), "tb": [policy, seed]}
Twin A creates the kit inside an event at time T of a running simulation; twin B creates it before the start. All
observables of A shifted by -T must equal those of B."""
from simprocesd.model import System, EventType
from simprocesd.model.factory_floor import (Source, Sink, PartHandler, PartProcessor, Buffer, PartBatcher, DecisionGate,
                                             Group, Maintainer, ActionScheduler, PartGenerator, Asset, Part)
from simprocesd.model.sensors import PeriodicSensor, OutputPartSensor, AttributeProbe
from simprocesd.model.cms import Cms
from functools import partial

from vlib.runner import Violation
from vlib.weights import Weights, installed

INF = float('inf')


class Tgt(PartProcessor):
    def get_work_order_duration(self, tag):
        return 1.5

    def get_work_order_capacity(self, tag):
        return 1

    def get_work_order_cost(self, tag):
        return 2


class Sch(ActionScheduler):
    def default_action(self, obj, time, st):
        obj.log.append((time, st))


class Box:
    pass


class PlantBuffer(Buffer):
    """User subclasses that override the documented initialize(env) hook and look at their own (public) configuration."""

    def initialize(self, env):
        super().initialize(env)
        self.free_at_start = self.capacity - self.level()


class PlantSink(Sink):
    def initialize(self, env):
        super().initialize(env)
        self.count_at_start = self.received_parts_count


class PlantBatcher(PartBatcher):
    def initialize(self, env):
        super().initialize(env)
        self.size_at_start = self.output_batch_size


class PlantCms(Cms):
    def initialize(self, env):
        super().initialize(env)
        self.crew = self.maintainer.name


class Toucher(Asset):
    """A user asset whose initialisation uses the resource manager (declares a pool and takes one unit of it)."""

    def initialize(self, env):
        super().initialize(env)
        rm = env.resource_manager
        rm.add_resources('tool', 2)
        self.res = rm.reserve_resources({'tool': 1})


def _small_run(system, index, horizon):
    s_ = Source('S', PartGenerator('p', 1.0), 1)
    Sink('K', [s_])
    system.simulate(horizon, print_summary=False)


def check_after_multiple_times(case):
    """simulate_multiple_times in the calling process creates one System per run: afterwards the LAST of them is the most
    recently created system - new assets register with it, it may continue, the earlier ones may not."""
    res = System.simulate_multiple_times(_small_run, 2, 0, 2)
    last = res[-1]
    late = PartHandler('after-the-runs')
    if not any(a is late for a in last._assets):
        where = [i for i, s_ in enumerate(res) if any(a is late for a in s_._assets)]
        raise Violation('C20.registered-latest', f'an asset created after simulate_multiple_times(.., 2, 0) returned is not '
                        f'registered with the most recently created system (the last one returned); found in returned systems '
                        f'{where}')
    try:
        last.simulate(1, print_summary=False)
    except RuntimeError as e:
        raise Violation('C20.latest-system', f'the most recently created system (last one returned by '
                        f'simulate_multiple_times) is refused by simulate(): {e}')
    if late.env is not last.env:
        raise Violation('C20.init-immediately', 'an asset created after the runs of simulate_multiple_times was not '
                        'initialised with the latest system')
    try:
        res[0].simulate(1, print_summary=False)
    except RuntimeError:
        pass
    else:
        raise Violation('C20.older-system', 'a system replaced by a later run of simulate_multiple_times was allowed to '
                        'simulate')
    # runs carried out in a WORKER process create their systems there: in this process the caller's own system is
    # still the most recently created one
    import multiprocessing
    if multiprocessing.current_process().daemon:
        return          # pool workers of the harness cannot start processes of their own; phase "after-worker-runs" does
    own = System()
    mine = PartHandler('mine')
    back = System.simulate_multiple_times(_small_run, 2, 1, 2)
    after = PartHandler('after-the-worker-runs')
    for a in (mine, after):
        if not any(x is a for x in own._assets):
            raise Violation('C20.registered-latest', f'after simulate_multiple_times(.., 2, max_processes=1) the asset "{a.name}" '
                            f'is not registered with the system most recently created in this process')
    if any(any(x is after for x in s_._assets) for s_ in back):
        raise Violation('C20.registered-latest', 'an asset created after the worker runs registered with a system that came '
                        'back from a worker process')
    try:
        own.simulate(1, print_summary=False)
    except RuntimeError as e:
        raise Violation('C20.latest-system', f'the system most recently created in this process is refused by simulate() '
                        f'after simulate_multiple_times ran in a worker process: {e}')


class PlantSystem(System):
    """A user's own subclass of System (the latest system may be one); it is falsy while it has no assets."""

    def __len__(self):
        return len(self._assets)


def _idx(part):
    try:
        return int(part.name.split('_')[-1].split('.')[0])
    except ValueError:
        return 0


def gate(g, part, neg=False):
    return (_idx(part) % 2 == 0) != neg


def build(kit):
    """Create the sub-model: every concrete asset kind. Returns the objects by role (creation order matters)."""
    o = {}
    if kit.get('default_source'):
        # both defaults: no part generator (default one is named after the source's id) and cycle time 0
        o['src'] = Source('S', starting_parts=5 if kit['budget'] == 'inf' else kit['budget'])
    else:
        o['src'] = Source('S', PartGenerator('p', 1.0), kit['src_c'], INF if kit['budget'] == 'inf' else kit['budget'])
    o['P'] = Tgt('P', [o['src']], kit['p_c'])
    if kit.get('off'):
        # a one-shot offset requested right after construction (before the first run for the early twin)
        o['P'].offset_next_cycle_time(kit['off'])
    o['B'] = (PlantBuffer if kit.get('subclasses') else Buffer)('B', [o['P']], kit['b_delay'], kit['b_cap'])
    gh = PartHandler('GH', None, kit['gh_c'])
    o['GH'] = gh
    grp = Group('g', [gh])
    o['GP'] = grp.get_new_group_path('GP', [o['B']])
    o['Ga'] = DecisionGate('Ga', [o['GP']], partial(gate, neg=False))
    o['Gb'] = DecisionGate('Gb', [o['GP']], partial(gate, neg=True))
    o['H'] = PartHandler('H', [o['Ga'], o['Gb']], kit['h_c'])
    o['BA'] = (PlantBatcher if kit.get('subclasses') else PartBatcher)('BA', [o['H']], output_batch_size=kit['batch'])
    o['K'] = (PlantSink if kit.get('subclasses') else Sink)('K', [o['BA']], kit['k_c'])
    if kit.get('off'):
        o['K'].offset_next_cycle_time(kit['off'])
    o['E'] = PartHandler('', None, 0)       # an empty string is a name like any other
    if kit.get('toucher'):
        o['R'] = Toucher('R')
    o['M'] = Maintainer('M', capacity=1, value=10)
    box = Box()
    box.log = []
    o['box'] = box
    o['S'] = Sch([(1, 'a'), (0.5, 'b'), (2, 'c')], 'sch', is_cyclical=kit['cyc'])
    o['ps'] = PeriodicSensor(kit['iv'], [AttributeProbe('received_parts_count', o['K'])], 'ps',
                             data_capacity=INF if kit['cap'] == 'inf' else kit['cap'])
    o['os'] = OutputPartSensor(o['P'], [AttributeProbe('quality', None)], kit['n'], 'os')
    o['cms'] = (PlantCms if kit.get('subclasses') else Cms)(o['M'], 'cms')
    o['cms'].add_sensor(o['ps'])
    return o


ASSET_ROLES = ['src', 'P', 'B', 'GH', 'GP', 'Ga', 'Gb', 'H', 'BA', 'K', 'E', 'M', 'S', 'ps', 'os', 'cms']


def observe(sysm, o, shift):
    sd = sysm.simulation_data
    out = {}
    for lab, d in sd.items():
        for nm, recs in d.items():
            rows = []
            for r in recs:
                if isinstance(r, tuple):
                    # drop asset/part ids (they depend on how many assets were created before), keep the rest
                    rest = tuple(x for i, x in enumerate(r[1:]) if not (lab in ('received_part', 'produced_part',
                                 'supplied_new_part', 'device_failure') and i == 0))
                    rows.append((r[0] - shift,) + rest)
                else:
                    rows.append(r)
            out[f'{lab}/{nm}'] = rows
    P = o['P']
    out['uptime'] = P.uptime
    out['utilization'] = P.utilization_time
    out['scheduler-actions'] = [(t - shift, s) for t, s in o['box'].log]
    out['periodic-times'] = [t - shift for t in o['ps'].data['time']]
    out['periodic-values'] = [v for k, v in o['ps'].data.items() if k != 'time']
    out['part-sensor'] = [v for k, v in o['os'].data.items()]
    out['sink-count'] = o['K'].received_parts_count
    out['maintainer-value'] = o['M'].value
    out['scheduler-state'] = o['S'].current_state
    out['source-value'] = o['src'].value
    out['source-produced'] = o['src'].produced_parts
    out['buffer-level'] = o['B'].level()
    out['operational'] = P.is_operational()
    out['value-histories'] = {r: [(h[0], h[1] - shift, h[2], h[3]) for h in o[r].value_history] for r in ('src', 'K', 'M')}
    return out


def run_twin(case, late):
    T = case['when'] if late else 0
    kit = case['kit']
    older = []
    for i in range(case.get('older', 0)):
        s_old = System()
        older.append((s_old, PartHandler(f'old{i}')))
        if case.get('older_ran'):
            s_old.simulate(1, print_summary=False)      # a replaced system that has already run must be refused too
    s = PlantSystem() if case.get('subsys') else System()
    env = s.env
    between = bool(case.get('between')) and late
    o = {}
    checks = {}

    def create():
        o.update(build(kit))
        if late:
            # created while the simulation is running: initialised immediately
            for r in ASSET_ROLES:
                if o[r].env is not env:
                    raise Violation('C20.init-immediately', f'{type(o[r]).__name__} created inside an event at {env.now} '
                                    f'was not initialised immediately (env is {o[r].env!r})')
    if between:
        # created between two simulate() calls: the simulation has started, so it is initialised immediately as well
        s.simulate(T, print_summary=False)
        create()
    elif late:
        env.schedule_event(T, -7, create, EventType.OTHER_HIGH_PRIORITY)
    else:
        create()
        for r in ASSET_ROLES:
            if o[r].env is not None:
                raise Violation('C20.init-early', f'{type(o[r]).__name__} created before the start is already initialised')
    # both twins register the scheduler's object by an event right after creation (DESIGN 4 C20: the start-up
    # invocation cannot reach an object registered after a late-created scheduler's constructor returned)
    env.schedule_event(T, -7, lambda: o['S'].register_object(o['box']), EventType.OTHER_LOW_PRIORITY)
    env.schedule_event(T + 2.25, -7, lambda: o['M'].create_work_order(o['P'], 'x'), EventType.OTHER_LOW_PRIORITY)
    env.schedule_event(T + 5, -7, lambda: o['P'].schedule_failure(env.now + 0.5), EventType.OTHER_LOW_PRIORITY)
    env.schedule_event(T + 7, -7, lambda: o['P'].restore_functionality(), EventType.RESTORE)
    total = T + case['hz']
    parts = case.get('split') or [1]
    done = T if between else 0
    for i, f in enumerate(parts):
        d = (total - (T if between else 0)) * f if i < len(parts) - 1 else total - done
        s.simulate(d, print_summary=False)      # continuing never re-initialises (the library asserts on a second call)
        done += d
    ids_ = [a.id for a in s._assets]
    if len(set(ids_)) != len(ids_):
        dup = sorted(x for x in set(ids_) if ids_.count(x) > 1)
        raise Violation('C20.unique-id', f'registered assets share ids {dup}: '
                        f'{[(a.name, a.id) for a in s._assets if a.id in dup]} (Asset.id is documented as unique; look-up by '
                        f'id and pause / cancel by asset id rely on it)')
    # ---- registration (registering an asset again is a no-op: still listed once, not initialised again)
    System.add_asset(o['P'])
    System.add_asset(o['K'])
    assets = s._assets
    for r in ASSET_ROLES:
        n = sum(1 for a in assets if a is o[r])
        if n != 1:
            raise Violation('C20.registered-once', f'{type(o[r]).__name__} "{o[r].name}" appears {n} times in the latest '
                            f'system\'s asset list')
        for (s_old, _) in older:
            if any(a is o[r] for a in s_old._assets):
                raise Violation('C20.registered-latest', f'{o[r].name} registered with an older system')
        if o[r].env is not env:
            raise Violation('C20.initialised', f'{o[r].name} is not initialised with the simulating environment')
    for (s_old, a_old) in older:
        if any(a is a_old for a in assets):
            raise Violation('C20.registered-latest', f'asset of an older system appears in the latest system')
        try:
            s_old.simulate(1, print_summary=False)
        except RuntimeError:
            pass
        else:
            raise Violation('C20.older-system', 'an older system was allowed to simulate')
    # ---- look-up: exactly the registered assets matching all given filters
    got_all = s.find_assets()
    n_all = len(got_all)
    got_all.clear()         # the returned list is the caller's; editing it must not unregister anything
    if len(s.find_assets()) != n_all or len(s._assets) != n_all:
        raise Violation('C20.find', f'emptying the list returned by find_assets() left {len(s._assets)} of {n_all} assets '
                        f'registered')
    assets = s._assets
    names = [None, 'P', 'K', 'nope', '']
    ids = [None, o['P'].id, -3, 0]
    types = [None, PartHandler, Tgt, Sink, Asset]
    subs = [None, PartHandler, PartProcessor, Asset, Maintainer]
    nfind = 0
    for nm in names:
        for i_ in ids:
            for ty in types:
                for sb in subs:
                    got = s.find_assets(name=nm, id_=i_, type_=ty, subtype=sb)
                    exp = [a for a in assets if (nm is None or a.name == nm) and (i_ is None or a.id == i_)
                           and (ty is None or type(a) is ty) and (sb is None or isinstance(a, sb))]
                    nfind += 1
                    if len(got) != len(exp) or any(x is not y for x, y in zip(got, exp)):
                        raise Violation('C20.find', f'find_assets(name={nm}, id_={i_}, type_={getattr(ty, "__name__", None)}, '
                                        f'subtype={getattr(sb, "__name__", None)}) returned {[a.name for a in got]}, '
                                        f'registered matching assets are {[a.name for a in exp]}')
    obs = observe(s, o, T)
    obs['_nfind'] = nfind
    return obs


def check_creation_during_initialisation(case):
    """An asset created from inside another asset's initialize() during the first simulate() (the start-up action of an
    ActionScheduler creates a sink) must be registered once and initialised once, like every other asset."""
    s = System()
    env = s.env
    src = Source('S', PartGenerator('p', 1.0), case['kit']['src_c'], 5)
    H = PartHandler('H', [src], 0.5)
    made = {}

    class Maker(ActionScheduler):
        def default_action(self, obj, time, st):
            if 'K' not in made:
                made['K'] = Sink('Kmade', [H], 0)
    first = Maker([(1, 'a'), (1, 'b')], 'maker')
    first.register_object(Box())
    last = PartHandler('after', None, 0)        # registered after the scheduler: initialised later in the same loop
    s.simulate(case['hz'], print_summary=False)
    K = made.get('K')
    if K is None:
        raise Violation('C20.crash', 'the start-up action of the scheduler did not run')
    n = sum(1 for a in s._assets if a is K)
    if n != 1:
        raise Violation('C20.registered-once', f'asset created during initialisation appears {n} times in the asset list')
    if K.env is not env or last.env is not env:
        raise Violation('C20.initialised', 'an asset created from inside another asset\'s initialize() during the first '
                        'simulate() was registered but never initialised')
    if K.received_parts_count < 1:
        raise Violation('C20.twin', 'the sink created during initialisation never received a part')


ATTACH_KINDS = ['sink', 'buffer', 'batcher', 'gates', 'path', 'processor', 'handler']


def run_attach(case, late):
    """A running line S -> H whose part is blocked (no downstream yet). At time T the rest of the line, starting with
    a device of kind case['attach'], is created downstream of H (late) - or it exists from the start with the input
    of its first device(s) blocked until T (early twin). From T on both lines must behave identically."""
    T = case['when']
    kit = case['kit']
    s = System()
    env = s.env
    src = Source('S', PartGenerator('p', 1.0), kit['src_c'], INF if kit['budget'] == 'inf' else kit['budget'])
    H = PartHandler('H', [src], kit['h_c'])
    if case.get('sibling'):
        # H already has a (slow) downstream, so the new device is not its first one
        Sink('Kslow', [H], 6)
    o = {}

    def create():
        k = case['attach']
        first = []
        if k == 'sink':
            o['K'] = Sink('K', [H], kit['k_c'])
            first = [o['K']]
        else:
            if k == 'buffer':
                x = Buffer('X', [H], kit['b_delay'], kit['b_cap'])
                first = [x]
            elif k == 'batcher':
                x = PartBatcher('X', [H], output_batch_size=kit['batch'])
                first = [x]
            elif k == 'gates':
                ga = DecisionGate('Ga', [H], partial(gate, neg=False))
                gb = DecisionGate('Gb', [H], partial(gate, neg=True))
                first = [ga, gb]
                x = PartHandler('X', [ga, gb], kit['gh_c'])
            elif k == 'path':
                gh = PartHandler('GH', None, kit['gh_c'])
                grp = Group('g', [gh])
                x = grp.get_new_group_path('X', [H])
                first = [x]
            elif k == 'processor':
                x = Tgt('X', [H], kit['p_c'])
                first = [x]
                o['P'] = x
            else:
                x = PartHandler('X', [H], kit['gh_c'])
                first = [x]
            o['K'] = Sink('K', [x], kit['k_c'])
        o['first'] = first
    if late:
        env.schedule_event(T, -7, create, EventType.OTHER_HIGH_PRIORITY)
    else:
        create()
        for f in o['first']:
            f.block_input = True

        def unblock():
            for f in o['first']:
                f.block_input = False
        env.schedule_event(T, -7, unblock, EventType.OTHER_HIGH_PRIORITY)
    s.simulate(T + case['hz'], print_summary=False)
    sd = s.simulation_data
    out = {}
    for lab, d in sd.items():
        for nm, recs in d.items():
            out[f'{lab}/{nm}'] = [tuple(x for i, x in enumerate(r) if not (lab in ('received_part', 'produced_part',
                                  'supplied_new_part') and i == 1)) for r in recs]
    out['sink-count'] = o['K'].received_parts_count
    out['sink-value'] = o['K'].value
    # the caller may do what it likes with the list find_assets returns
    lst = s.find_assets()
    n_before = len(lst)
    lst.clear()
    if len(s.find_assets()) != n_before:
        raise Violation('C20.find', f'emptying the list returned by find_assets() unregistered {n_before - len(s.find_assets())} assets')
    if 'P' in o:
        out['uptime-since-creation'] = o['P'].uptime - (0 if late else T)
        out['utilization'] = o['P'].utilization_time
    out['_delivered'] = o['K'].received_parts_count
    return out


def run(case):
    with installed(Weights(*case['tb'])):
        check_creation_during_initialisation(case)
    if case.get('multi'):
        with installed(Weights(*case['tb'])):
            check_after_multiple_times(case)
    if case.get('attach'):
        with installed(Weights(*case['tb'])):
            A = run_attach(case, True)
        with installed(Weights(*case['tb'])):
            B = run_attach(case, False)
        for k in set(A) | set(B):
            if k.startswith('_'):
                continue
            if A.get(k) != B.get(k):
                raise Violation('C20.twin-attach', f'{case["attach"]} created at t={case["when"]} downstream of a device '
                                f'holding a blocked part behaves differently from the same line created before the start '
                                f'with its input blocked until then: {k}: late {str(A.get(k))[:150]} | early '
                                f'{str(B.get(k))[:150]}')
        return {'records': sum(len(v) for k, v in A.items() if '/' in k), 'finds': 0, 'delivered': A['_delivered']}
    with installed(Weights(*case['tb'])):
        A = run_twin(case, True)
    with installed(Weights(*case['tb'])):
        B = run_twin(case, False)
    nrec = sum(len(v) for k, v in A.items() if '/' in k)
    for k in B:
        if k.startswith('_'):
            continue
        if A.get(k) != B[k]:
            raise Violation('C20.twin', f'asset created inside an event at t={case["when"]} behaves differently from the '
                            f'same asset created before the start: {k}: late (shifted) {str(A.get(k))[:160]} | '
                            f'early {str(B[k])[:160]}')
    for k in A:
        if k not in B and not k.startswith('_'):
            raise Violation('C20.twin', f'late-created model has data {k} that the early-created one lacks')
    return {'records': nrec, 'finds': A['_nfind']}
