"""E3 entry point: run one generated model under the monitor."""
from vlib.weights import Weights, installed
from engines.lf_model import Model
from engines.lf_monitor import Monitor


def run_spec(spec, oracles):
    w = Weights(*spec['tb'])
    with installed(w):
        m = Model(spec, w)
        mon = Monitor(m, oracles)
        mon.run()
    return mon


def common_result(mon, nontrivial, classes=()):
    c = mon.c
    cl = set(classes) | mon.classes
    cl.add('profile:' + mon.spec.get('profile', '?'))
    cl.add('tb:' + mon.spec['tb'][0])
    if c['handovers_after_block']:
        cl.add('refused-then-accepted-handover')
    if len(mon.spec['T']) > 1:
        cl.add('split-run')
    if mon.lost:
        cl.add('failure-with-part-in-process')
    return {'nontrivial': bool(nontrivial), 'classes': sorted(cl),
            'counters': {k: c[k] for k in ('events', 'advances', 'probes', 'blocked_ready', 'handovers_after_block',
                                            'kept_reservation', 'contested')}}


def delivered(mon):
    from simprocesd.model.factory_floor import Sink
    return sum(d.received_parts_count for d in mon.devs if isinstance(d, Sink))
