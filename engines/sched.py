"""E6: ActionScheduler against an independent timetable evaluator.

case = {"timetable":[[dur,state]...], "cyclical":true|false|null, "pre":[[obj,override]...],
        "timed":[[time,priority,"reg"|"unreg",obj,override]...], "T":[d1,...], "tb":[policy,seed], "default": bool}"""
from simprocesd.model import System
from simprocesd.model.factory_floor import ActionScheduler

from vlib.runner import Violation
from vlib.weights import Weights, installed

BOUNDARY_PRIO = 11      # EventType.OTHER_HIGH_PRIORITY: priority of the scheduler's own transition events


def run(case):
    with installed(Weights(*case['tb'])):
        return _run(case)


def _run(case):
    s = System()
    env = s.env
    tt = [tuple(x) for x in case['timetable']]
    cyc = case['cyclical']
    log = []

    class S(ActionScheduler):
        def default_action(self, obj, time, st):
            if self.current_state != st:
                raise Violation('C18.state', f'during the action for state {st!r} at {env.now} current_state is '
                                f'{self.current_state!r}')
            log.append(('d', obj[0], time, st, env.now))

    t0 = case.get('late') or 0
    box = {}
    if case.get('machine'):
        # an unrelated machine goes down, comes back and fails while the timetable runs: none of the scheduler's business
        from simprocesd.model.factory_floor import PartProcessor
        mach = PartProcessor('mach', None, 1)
        dn, up_, fl = case['machine']
        env.schedule_event(dn, -4, mach.shutdown, 12.5)
        env.schedule_event(up_, -4, mach.restore_functionality, 12.5)
        env.schedule_event(fl, -4, lambda: mach.schedule_failure(env.now), 12.5)

    def make():
        mine = [tuple(x) for x in tt]       # the caller's own list ...
        box['sch'] = S(mine, 'sch') if case['cyclical'] is None else S(mine, 'sch', is_cyclical=case['cyclical'])
        mine.reverse()                      # ... which it goes on to use for something else
        mine.append((7, 'edited'))
        del mine[0]
    def fresh(o):
        # registered objects are value-like: every call passes an equal but not identical object
        return (o, 'obj')
    between = bool(case.get('between')) and len(case['T']) > 1
    in_init = bool(case.get('init')) and not between and not t0
    if in_init:
        # the scheduler is created from inside another asset's initialize() when the first run starts
        from simprocesd.model.factory_floor import Asset

        class Maker(Asset):
            def initialize(self, env_):
                super().initialize(env_)
                make()
        Maker('maker')
    elif between:
        t0 = case['T'][0]       # created after the first simulate() has returned, before the second starts
    elif t0:
        # the scheduler is created while the simulation is running: its timetable starts then
        env.schedule_event(t0, -4, make, 13)
    else:
        make()
    if cyc is None:
        cyc = True      # documented default

    def over(sc, obj, time, st):
        if sc is not box['sch']:
            raise Violation('C18.args', f'override action got {sc!r} instead of the scheduler')
        if sc.current_state != st:
            raise Violation('C18.state', f'during the action for state {st!r} at {env.now} current_state is '
                            f'{sc.current_state!r}')
        log.append(('o', obj[0], time, st, env.now))

    class QuietLog(list):
        """An override action that is a callable object which happens to be falsy (an empty list that logs elsewhere)."""

        def __call__(self, sc, obj, time, st):
            over(sc, obj, time, st)
    quiet = QuietLog()

    class Proxy:
        def __getattr__(self, name):
            return getattr(box['sch'], name)
    sch = Proxy()

    reg = []
    rets = []
    for (o, ov) in (case['pre'] if not (t0 or in_init) else []):
        r = sch.register_object(fresh(o), (quiet if o == 'o3' else over) if ov else None)
        exp = o not in [x for x, _ in reg]
        if r != exp:
            raise Violation('C18.register-return', f'register_object({o}) returned {r}, expected {exp}')
        if exp:
            reg.append((o, ov))
    for (t, prio, k, o, ov) in case['timed']:
        def act(k=k, o=o, ov=ov):
            if 'sch' not in box:
                raise Violation('C18.invocations', f'a registration event of priority below 13 ran at {env.now} before the '
                                f'event of priority 13 at the same instant that creates the scheduler')
            if k == 'reg':
                rets.append((env.now, k, o, sch.register_object(fresh(o), (quiet if o == 'o3' else over) if ov else None)))
            else:
                rets.append((env.now, k, o, sch.unregister_object(fresh(o))))
        env.schedule_event(t, -4, act, prio)
    T = sum(case['T'])
    samples = []
    k = 0
    while 0.25 * k <= T:
        env.schedule_event(0.25 * k, -5, lambda: samples.append((env.now, sch.current_state if 'sch' in box else None)), 1.5)
        k += 1
    def state_now():
        # the timetable evaluated at the current clock (same fold as the reference below)
        t_, i_, st_ = t0, 0, None
        if 'sch' not in box:
            return None
        while t_ <= env.now:
            st_ = tt[i_][1]
            t_ += tt[i_][0]
            i_ += 1
            if i_ >= len(tt):
                if not cyc:
                    break
                i_ = 0
        return st_
    for i, h in enumerate(case['T']):
        s.simulate(h, print_summary=False)
        if between and i == 0:
            make()
        elif 'sch' in box and sch.current_state != state_now():
            raise Violation('C18.state', f'after simulate({h}) the clock is {env.now} and current_state is '
                            f'{sch.current_state!r}, the timetable {tt} prescribes {state_now()!r}')

    # ---- reference timetable: state i begins at the sum of the durations before it
    bounds = []
    t = t0
    i = 0
    while t <= T:
        bounds.append((t, tt[i][1]))
        t += tt[i][0]
        i += 1
        if i >= len(tt):
            if not cyc:
                break
            i = 0

    def state_at(x):
        st = None
        for (b, sv) in bounds:
            if b <= x:
                st = sv
        return st
    for (x, st) in samples:
        if between and x == t0:
            continue        # sampled at the end of the first run, just before the scheduler was created
        if st != state_at(x):
            raise Violation('C18.state', f'state at {x} is {st!r}, the timetable {tt} (cyclical={cyc}) prescribes '
                            f'{state_at(x)!r}')
    recs = [tuple(r) for r in s.simulation_data.get('schedule_update', {}).get('sch', [])]
    if recs != bounds:
        raise Violation('C18.records', f'schedule_update records {recs[:8]} differ from the prescribed state changes '
                        f'{bounds[:8]}')
    # ---- invocation log: one call per object registered at that moment, in registration order
    exp = []
    # the start-up invocation happens during initialisation, before any event of time 0
    evs = [(b[0], -BOUNDARY_PRIO if j else -float('inf'), j, 'b', b[1]) for j, b in enumerate(bounds)] + \
          [(t, -prio, 0, k, (o, ov)) for (t, prio, k, o, ov) in case['timed'] if t <= T]
    if t0:
        # start-up of a late-created scheduler happens inside its constructor (priority-13 event at t0)
        evs = [(e[0], -13, e[2], e[3], e[4]) if (e[3] == 'b' and e[2] == 0) else e for e in evs]
    regm = list(reg)
    exp_rets = []
    for e in sorted(evs, key=lambda e: (e[0], e[1], e[2])):
        if e[3] == 'b':
            for (o, ov) in regm:
                exp.append(('o' if ov else 'd', o, e[0], e[4], e[0]))
        elif e[3] == 'reg':
            o, ov = e[4]
            fresh = o not in [x for x, _ in regm]
            exp_rets.append((e[0], 'reg', o, fresh))
            if fresh:
                regm.append((o, ov))
        else:
            o = e[4][0]
            exp_rets.append((e[0], 'unreg', o, o in [x for x, _ in regm]))
            regm = [(x, v) for x, v in regm if x != o]
    if rets != exp_rets:
        raise Violation('C18.register-return', f'register/unregister returned {rets[:6]}, expected {exp_rets[:6]}')
    if log != exp:
        i = next((i for i in range(min(len(log), len(exp))) if log[i] != exp[i]), min(len(log), len(exp)))
        raise Violation('C18.invocations', f'action invocation number {i + 1} is '
                        f'{log[i] if i < len(log) else "missing"}, expected {exp[i] if i < len(exp) else "none"} '
                        f'(kind d=default/o=override, object, time argument, state, clock); registered then: see case')
    periods = (T / sum(d for d, _ in tt)) if sum(d for d, _ in tt) else 0
    return {'invocations': len(exp), 'boundaries': len(bounds), 'periods': periods,
            'terminal': (not cyc) and len(bounds) >= len(tt),
            'changes_during_run': len([1 for e in case['timed'] if 0 < e[0] <= T])}
