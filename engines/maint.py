"""E5: Maintainer under generated request streams (real Maintainer + real Environment, harness Maintainable targets).

case = {"capacity":c|"inf", "targets":n, "table":{"t0/a":[dur,cap,cost],...}, "requests":[[time,priority,target,tag]...],
        "hooks":{"t0/a/start":[[target,tag]...], ...}, "tb":[policy,seed], "T":horizon}
Tags are null, "a", "b". The reference acceptor is fed with the OBSERVED occurrence stream (request made, start
hook entered, end hook entered / order freed), so it never guesses when inside a hook a request arrived."""
from simprocesd.model import System
from simprocesd.model.factory_floor import Maintainer, Maintainable

from vlib.runner import Violation
from vlib.weights import Weights, installed

INF = float('inf')


def key(t, tag):
    if isinstance(tag, (list, tuple)):
        tag = ':'.join(str(x) for x in tag)
    return f'{t}/{tag if tag is not None else "-"}'


class Target(Maintainable):
    def __init__(self, name, h):
        # key: what the harness calls the target; name: what the library sees - two machines may carry the same name
        self.key = name
        self.name = 'press' if h.case.get('same_names') else name
        self.h = h

    def get_work_order_duration(self, tag):
        # the reported duration changes from call to call (when case['vary'] is set): the order must last what
        # was reported at its start
        h = self.h
        k = key(self.key, tag)
        n = h.dur_calls.get(k, 0)
        h.dur_calls[k] = n + 1
        d = h.table[k][0] + (0.5 * (n % 3) if h.case.get('vary') else 0)
        h.calls.append(('dur', self.key, list(tag) if isinstance(tag, tuple) else tag, h.env.now, d))
        return d

    def get_work_order_capacity(self, tag):
        return self.h.table[key(self.key, tag)][1]

    def get_work_order_cost(self, tag):
        return self.h.table[key(self.key, tag)][2]

    def start_work(self, tag):
        self.h.on_start(self, list(tag) if isinstance(tag, tuple) else tag)

    def end_work(self, tag):
        self.h.on_end(self, list(tag) if isinstance(tag, tuple) else tag)


class Harness:
    def __init__(self, case):
        self.case = case
        self.sys = System()
        self.env = self.sys.env
        cap = case['capacity']
        self.capacity = INF if cap == 'inf' else cap
        self.m = Maintainer('m', capacity=self.capacity, value=100)
        self.targets = {f't{i}': Target(f't{i}', self) for i in range(case['targets'])}
        self.table = case['table']
        self.calls = []
        self.dur_calls = {}
        self.outstanding = []
        self.queue = []       # reference: accepted, not yet selected  [target, tag, cap]
        self.active = []      # reference: selected (in progress)
        self.util = 0
        self.active_real = []  # really started, not ended: (target, tag, start, duration)
        self.hooks = {k: list(v) for k, v in case.get('hooks', {}).items()}
        self.cost_started = 0
        self.c = {'requests': 0, 'accepted': 0, 'rejected': 0, 'starts': 0, 'ends': 0, 'overtakes': 0,
                  'waited_for_target': 0, 'hook_requests': 0, 'burst': 0}
        self.starts_log = []
        self.finished = 0
        for (t, prio, tg, tag) in case['requests']:
            self.env.schedule_event(t, -5, lambda tg=tg, tag=tag: self.request(tg, tag), prio)
        times = [r[0] for r in case['requests']]
        self.c['burst'] = sum(1 for t in set(times) if times.count(t) > 1)

    NOISE_OFF = ('C12.capacity', 'C12.order', 'C12.started-set', 'C12.left-waiting', 'C12.cost')

    def bad(self, oracle, msg):
        # with non-dyadic capacities "fits" is a float comparison whose outcome the statement does not fix: the
        # reference acceptor is not compared there, only the rounding-independent oracles decide
        if self.case.get('noise') and oracle in self.NOISE_OFF:
            return
        raise Violation(oracle, msg)

    def ref_scan(self):
        i = 0
        while i < len(self.queue):
            tg, tag, cap = self.queue[i]
            if self.util <= self.capacity - cap and not any(a[0] == tg for a in self.active):
                if i > 0:
                    self.c['overtakes'] += 1
                self.queue.pop(i)
                self.active.append((tg, tag, cap))
                self.util += cap
            else:
                if any(a[0] == tg for a in self.active) and self.util <= self.capacity - cap:
                    self.c['waited_for_target'] += 1
                i += 1

    def request(self, tg, tag, ending=None):
        self.c['requests'] += 1
        # identical (target, tag) accepted earlier and not yet finished? (observed, independent of the reference acceptor)
        exp = (tg, key(tg, tag)) not in self.outstanding
        # a list tag stands for a tuple built afresh for every request: equal to, but not the same object as, the
        # tag of an earlier identical request
        tag_obj = tuple(tag) if isinstance(tag, list) else tag
        got = self.m.create_work_order(self.targets[tg], tag_obj)
        if ending == (tg, tag):
            exp = got      # the order whose own end hook is running: the statement does not say which side
        if got is not True and got is not False:
            self.bad('C12.return', f'create_work_order({tg},{tag}) returned {got!r}')
        if got != exp:
            self.bad('C12.accept', f'create_work_order({tg},{tag}) returned {got} at {self.env.now}; queued '
                     f'{[(q[0], q[1]) for q in self.queue]}, in progress {[(a[0], a[1]) for a in self.active]}')
        if got:
            self.c['accepted'] += 1
            self.outstanding.append((tg, key(tg, tag)))
            self.queue.append((tg, tag, self.table[key(tg, tag)][1]))
            self.ref_scan()
        else:
            self.c['rejected'] += 1
        self.check_cap()

    def check_cap(self):
        if self.m.available_capacity != self.capacity - self.util:
            self.bad('C12.capacity', f'available_capacity {self.m.available_capacity} at {self.env.now}, reference '
                     f'{self.capacity - self.util} (in progress {[(a[0], a[1], a[2]) for a in self.active]})')
        if self.util > self.capacity:
            self.bad('C12.capacity', f'capacity in use {self.util} exceeds {self.capacity}')

    def on_start(self, t, tag):
        tg = t.key
        now = self.env.now
        self.c['starts'] += 1
        if not any(a[0] == tg and a[1] == tag for a in self.active):
            self.bad('C12.order', f'order ({tg},{tag}) started at {now} but in request order the reference selected '
                     f'{[(a[0], a[1]) for a in self.active]} (queue {[(q[0], q[1]) for q in self.queue]})')
        if any(a[0] == tg for a in self.active_real):
            self.bad('C12.one-per-target', f'order ({tg},{tag}) started at {now} while another order on {tg} is in progress')
        if any(a[0] == tg and a[1] == tag for a in self.active_real):
            self.bad('C12.hooks-once', f'start hook of ({tg},{tag}) ran twice')
        # the duration(s) the target reported at this start
        durs = [c[4] for c in self.calls[-4:] if c[:4] == ('dur', tg, tag, now)]
        if not durs:
            self.bad('C12.duration-read', f'duration of ({tg},{tag}) was not read at its start ({now})')
        self.active_real.append((tg, tag, now, durs))
        self.cost_started += self.table[key(tg, tag)][2]
        self.starts_log.append((now, tg, tag))
        for (t2, g2) in self.hooks.pop(key(tg, tag) + '/start', []):
            self.c['hook_requests'] += 1
            self.request(t2, g2)

    def on_end(self, t, tag):
        tg = t.key
        now = self.env.now
        self.c['ends'] += 1
        ar = [a for a in self.active_real if a[0] == tg and a[1] == tag]
        if len(ar) != 1:
            self.bad('C12.hooks-once', f'end hook of ({tg},{tag}) ran at {now} without a matching start')
        if all(now != ar[0][2] + d for d in ar[0][3]):
            self.bad('C12.duration', f'order ({tg},{tag}) started at {ar[0][2]} with reported duration {ar[0][3]} '
                     f'but its end hook ran at {now}')
        for (t2, g2) in self.hooks.pop(key(tg, tag) + '/end', []):
            self.c['hook_requests'] += 1
            self.request(t2, g2, ending=(tg, tag))
        self.active_real.remove(ar[0])
        if (tg, key(tg, tag)) in self.outstanding:
            self.outstanding.remove((tg, key(tg, tag)))
        self.finished += 1
        # after the hook returns the maintainer frees the capacity and rescans; mirror it
        self.active = [a for a in self.active if not (a[0] == tg and a[1] == tag)]
        self.util -= self.table[key(tg, tag)][1]
        self.ref_scan()

    def quiescent(self):
        now = self.env.now
        if not self.active_real:
            # nothing in progress: no capacity is in use, whatever the arithmetic
            if self.m.available_capacity != self.m.total_capacity:
                raise Violation('C12.idle-capacity', f'no order is in progress at {now} but available_capacity is '
                                f'{self.m.available_capacity!r}, total capacity {self.m.total_capacity!r}')
            waiting = [(q.target.key, q.tag, q.needed_capacity) for q in self.m._request_queue]
            for (tg, tag, need) in waiting:
                if need <= self.capacity:
                    raise Violation('C12.left-waiting-idle', f'order ({tg},{tag}) needing {need} of {self.capacity} is still '
                                    f'queued when time advances from {now} although no order is in progress')
        ref = sorted((a[0], str(a[1])) for a in self.active)
        real = sorted((a[0], str(a[1])) for a in self.active_real)
        if ref != real:
            self.bad('C12.started-set', f'when time advances from {now}: orders in progress {real}, the reference '
                     f'(request order, capacity, one per target) says {ref}')
        for (tg, tag, cap) in self.queue:
            if self.util <= self.capacity - cap and not any(a[0] == tg for a in self.active):
                self.bad('C12.left-waiting', f'order ({tg},{tag}) fits and its target is free but it is still queued when '
                         f'time advances from {now}')
        if self.m.value != 100 - self.cost_started:
            self.bad('C12.cost', f'maintainer value {self.m.value} at {now}; started orders cost {self.cost_started} in total')

    def run(self):
        env = self.env
        orig = env.step

        def step():
            if env._events and env._events[0].time > env.now:
                self.quiescent()
            orig()
            self.check_cap()
        env.step = step
        self.sys.simulate(self.case['T'], print_summary=False)
        self.quiescent()
        return self


def run(case):
    with installed(Weights(*case['tb'])):
        return Harness(case).run()
