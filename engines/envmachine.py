"""E1: operation sequences on a bare Environment interpreted in lock-step with a reference queue model.

Case format (DESIGN Appendix A):
  {"weights": [w...], "ops": [op...]}
  op = ["s", asset, delta, priority, [inner op...]] | ["p", a] | ["u", a] | ["c", a] | ["past", delta]
     | ["step"] | ["run", d] | ["again", i]  (second execute() of an executed event)
     | ["sa", asset, absolute_time, priority, [inner op...]]  (float-noise profile: due time given as a literal)
Inner ops (performed by the event's action when it executes) are the same minus step/run.

Oracles (ids):
  C01.head-min       the event dispatched has the minimum time of all live queued events and, among those
                     with that time, the maximum priority (validity predicate, independent of Event.__lt__)
  C01.clock          while an action runs env.now equals the time of its event; the clock never decreases
  C01.once           an action runs at most once
  C01.past           scheduling before now raises ValueError and enqueues nothing
  C01.run            run(d) from t0: ends with now == t0+d; every live event due <= t0+d ran; none due later ran
  C01.lost           a scheduled event is neither queued, paused nor executed
  C07.time           a resumed event runs at original time + length of the pause(s)
  C07.pending        after every operation the (time, event) pairs still pending / the paused set equal the model's
  C07.cancel-ran     the action of a cancelled event ran
  C07.paused-ran     the action of a paused event ran
"""
import math

from simprocesd.model.simulation import Environment, EventType

from vlib.runner import PROGRESS, Violation
from vlib.weights import Weights, installed

TERMINATE = int(EventType.TERMINATE)


class Rec:
    __slots__ = ('id', 'asset', 'prio', 'time', 'orig', 'state', 'cancelled', 'paused_at', 'prog', 'runs',
                 'ev', 'was_paused', 'inner', 'born')


class E1:
    def __init__(self, case, oracles):
        self.case = case
        self.on = oracles            # prefixes, e.g. ('C01',) or ('C07',)
        self.env = Environment()
        self.recs = []
        self.log = []
        self.c = {'dispatches': 0, 'prio_ties': 0, 'frac_ties': 0, 'inner_inserts': 0, 'resumed_runs': 0,
                  'pauses_at_pos_clock': 0, 'cancelled_skipped': 0, 'runs': 0, 'past_rejected': 0,
                  'unpause_vs_fresh': 0, 'weight_ties': 0}
        self.depth = 0
        self._orig_step = self.env.step
        self.env.step = self._step
        self.run_count = 0
        self.stepped = []
        self.max_started_end = float('-inf')
        self.max_clock = 0
        self.others = []

    # ------------------------------------------------------------------------------------ helpers
    def bad(self, oracle, msg):
        if oracle.split('.')[0] in self.on:
            raise Violation(oracle, msg)

    def _find_event(self, fn):
        for e in self.env._events:
            if e.action is fn:
                return e
        for e in self.env._paused_events:
            if e.action is fn:
                return e
        return None

    # --------------------------------------------------------------------------------- operations
    def apply(self, op, inner=False):
        k = op[0]
        env = self.env
        if k == 'sa':
            # absolute due time (a decimal literal, not a float sum); skipped if it lies in the past
            if op[2] < env.now:
                return
            op = ['s', op[1], op[2], op[3], op[4]]
            k = 's'
            absolute = True
        else:
            absolute = False
        if k == 's':
            _, asset, delta, prio, prog = op
            r = Rec()
            r.id = len(self.recs)
            r.asset, r.prio, r.prog = asset, prio, prog
            r.time = r.orig = delta if absolute else env.now + delta
            r.state, r.cancelled, r.paused_at, r.runs, r.was_paused = 'q', False, None, 0, False
            r.inner = inner
            r.born = env.now
            self.recs.append(r)

            def act(r=r):
                self._on_action(r)
            act.rec = r
            n_before = len(env._events)
            env.schedule_event(r.time, asset, act, prio, f'r{r.id}')
            r.ev = self._find_event(act)
            if r.ev is None or len(env._events) != n_before + 1:
                self.bad('C01.lost', f'event r{r.id} scheduled for {r.time} is not in the queue')
            if inner:
                self.c['inner_inserts'] += 1
        elif k == 'past':
            n_before = len(env._events)
            # "ulp": the largest representable time below now
            t = math.nextafter(env.now, -math.inf) if op[1] == 'ulp' else env.now - op[1]
            if not t < env.now:      # delta lost in rounding: not a past time after all
                return
            try:
                env.schedule_event(t, 1, lambda: self.bad('C01.past', 'an event scheduled in the past ran'), 5)
            except ValueError:
                self.c['past_rejected'] += 1
                if len(env._events) != n_before:
                    self.bad('C01.past', 'rejected schedule call still changed the queue')
            else:
                self.bad('C01.past', f'scheduling at {t} < now={env.now} was accepted')
        elif k == 'p':
            a = op[1]
            env.pause_matching_events(a)
            if a is not None:
                for r in self.recs:
                    if r.asset == a and r.state == 'q':
                        r.state, r.paused_at, r.was_paused = 'p', env.now, True
                        if env.now > 0 and not r.cancelled:
                            self.c['pauses_at_pos_clock'] += 1
        elif k == 'u':
            a = op[1]
            env.unpause_matching_events(a)
            if a is not None:
                for r in self.recs:
                    if r.asset == a and r.state == 'p':
                        # original + length of the pause; a resumed event is never due before now (rounding)
                        r.time = max(env.now, r.time + (env.now - r.paused_at))
                        r.state, r.paused_at = 'q', None
        elif k == 'c':
            a = op[1]
            env.cancel_matching_events(a)
            if a is not None:
                for r in self.recs:
                    if r.asset == a and r.state in ('q', 'p'):
                        r.cancelled = True
        elif k == 'env2':
            # another Environment comes to life in the same process and is used a little: none of this one's business
            other = Environment()
            self.others.append(other)
            for a in (0, 1, 2, 3, 9):
                other.schedule_event(1, a, lambda: None)
                other.pause_matching_events(a)
                other.unpause_matching_events(a)
            for o in self.others[:-1]:
                o.unpause_matching_events(op[1] if len(op) > 1 else 1)
        elif k == 'again':
            # Event.execute() called a second time on an already executed event: the action must not run again
            done = [r for r in self.recs if r.state == 'x' and r.ev is not None]
            if done:
                done[op[1] % len(done)].ev.execute()
        elif k == 'step':
            if inner:
                return
            if env._events:
                env.step()
        elif k == 'run':
            # also from inside an event action (a nested run): the quantifier of C01 lists run calls issued from
            # inside event actions
            self._run(op[1], nested=inner)
        else:
            raise ValueError(op)

    def _on_action(self, r):
        env = self.env
        r.runs += 1
        if r.runs > 1:
            self.bad('C01.once', f'action of event r{r.id} ran {r.runs} times')
            return
        if r.cancelled:
            self.bad('C07.cancel-ran', f'action of cancelled event r{r.id} (asset {r.asset}) ran at {env.now}')
        if r.state == 'p':
            self.bad('C07.paused-ran', f'action of paused event r{r.id} (asset {r.asset}) ran at {env.now}')
        if r.ev is not None and env.now != r.ev.time:
            self.bad('C01.clock', f'clock {env.now} differs from the time {r.ev.time} of the executing event r{r.id}')
        if env.now != r.time:
            if r.was_paused:
                self.bad('C07.time', f'event r{r.id} scheduled for {r.orig}, paused, must resume at {r.time} '
                         f'but ran at {env.now}')
            else:
                self.bad('C01.clock', f'event r{r.id} scheduled for {r.time} ran at clock {env.now}')
        if r.was_paused:
            self.c['resumed_runs'] += 1
        r.state = 'x'
        self.log.append((r.id, env.now))
        for op in r.prog:
            self.apply(op, inner=True)

    # --------------------------------------------------------------------------- monitored step
    def _step(self):
        env = self.env
        snap = list(env._events)
        now_before = env.now
        mark = len(self.stepped)
        self._orig_step()
        PROGRESS[0] += 1
        self.c['dispatches'] += 1
        self.max_clock = max(self.max_clock, env.now)
        inner = set(self.stepped[mark:])       # events dispatched by runs nested inside this step's action
        if env.now < now_before and not inner:
            self.bad('C01.clock', f'clock went backwards from {now_before} to {env.now}')
        after = {id(e) for e in env._events} | {id(e) for e in env._paused_events}
        removed = [e for e in snap if id(e) not in after and id(e) not in inner]
        if len(removed) != 1:
            self.bad('C01.head-min', f'one step removed {len(removed)} events from the queue')
            return
        self.stepped.append(id(removed[0]))
        x = removed[0]
        if x.cancelled:
            # a cancelled event is not live; it is dropped silently (if its action ran, _on_action said so)
            self.c['cancelled_skipped'] += 1
            return
        live = [e for e in snap if e is not x and not e.cancelled]
        tie = False

        def prio_of(ev):
            # the priority the harness asked for, not what the Event object stores; TERMINATE events have no record
            rec = getattr(ev.action, 'rec', None)
            return rec.prio if rec is not None else ev.event_type
        px = prio_of(x)
        for e in live:
            if e.time < x.time:
                self.bad('C01.head-min', f'dispatched event at time {x.time} while a live event due at {e.time} '
                         f'was pending')
            if e.time == x.time:
                pe = prio_of(e)
                if pe > px:
                    self.bad('C01.head-min', f'at time {x.time} dispatched priority {float(px)} before '
                             f'pending priority {float(pe)}')
                if pe != px:
                    tie = True
                    if float(pe) != int(pe) or float(px) != int(px):
                        self.c['frac_ties'] += 1
                    rx, re_ = getattr(x.action, 'rec', None), getattr(e.action, 'rec', None)
                    if rx is not None and re_ is not None and rx.was_paused != re_.was_paused:
                        self.c['unpause_vs_fresh'] += 1
                else:
                    self.c['weight_ties'] += 1
        if tie:
            self.c['prio_ties'] += 1

    # ------------------------------------------------------------------------------------ run(d)
    def _run(self, d, nested=False):
        env = self.env
        t0 = env.now
        n_log = len(self.log)
        end = t0 + d
        prev_max = self.max_started_end
        self.max_started_end = float('-inf')
        if nested:
            self.c['nested_runs'] = self.c.get('nested_runs', 0) + 1
        env.run(d)
        self.run_count += 1
        self.c['runs'] += 1
        if env.now < self.max_clock:
            self.bad('C01.clock', f'run({d}) started at {t0} returned with the clock at {env.now} although the clock had '
                     f'already reached {self.max_clock} (a run nested in an event action went further): the clock decreased')
        self.max_clock = max(self.max_clock, env.now)
        # did a run nested (at any depth) in this one end after this one's end? then this run's clock legitimately
        # lies beyond its own end when it returns
        went_beyond = self.max_started_end > end
        self.max_started_end = max(prev_max, self.max_started_end, end)
        if env.now != end and not went_beyond:
            self.bad('C01.run', f'run({d}) started at {t0} ended with the clock at {env.now}, expected {end}'
                     + (' (a run nested in an event action)' if nested else ''))
        for (rid, t) in self.log[n_log:]:
            if t > end and not went_beyond:
                self.bad('C01.run', f'run({d}) from {t0} executed event r{rid} due at {t} > {end}')
        for e in env._events:
            if not e.cancelled and e.time <= end and getattr(e.action, 'rec', None) is not None:
                self.bad('C01.run', f'run({d}) from {t0} returned but live event r{e.action.rec.id} due at {e.time} '
                         f'<= {end} did not run')
        for r in self.recs:
            if r.state == 'q' and not r.cancelled and not r.was_paused and r.time <= end:
                self.bad('C01.run', f'run({d}) from {t0} returned but event r{r.id} due at {r.time} never ran')

    # ----------------------------------------------------------------------------- after each op
    def compare_pending(self):
        env = self.env
        real_q = sorted((e.time, e.action.rec.id) for e in env._events
                        if not e.cancelled and getattr(e.action, 'rec', None) is not None)
        model_q = sorted((r.time, r.id) for r in self.recs if r.state == 'q' and not r.cancelled)
        if real_q != model_q:
            self.bad('C07.pending', f'pending (time, event) pairs {real_q} differ from the model {model_q} at {env.now}')
        real_p = sorted(e.action.rec.id for e in env._paused_events
                        if not e.cancelled and getattr(e.action, 'rec', None) is not None)
        model_p = sorted(r.id for r in self.recs if r.state == 'p' and not r.cancelled)
        if real_p != model_p:
            self.bad('C07.pending', f'paused events {real_p} differ from the model {model_p} at {env.now}')
        # C01.lost: every non-executed record is somewhere
        if 'C01' in self.on:
            present = {id(e) for e in env._events} | {id(e) for e in env._paused_events}
            for r in self.recs:
                if r.state != 'x' and not r.cancelled and r.ev is not None and id(r.ev) not in present:
                    self.bad('C01.lost', f'event r{r.id} due at {r.time} vanished without running')

    def execute(self):
        with installed(Weights(script=self.case.get('weights') or [0.5])):
            for op in self.case['ops']:
                self.apply(op)
                self.compare_pending()
        return self


def run(case, oracles):
    m = E1(case, oracles).execute()
    return m


# ============================================================ Hypothesis stateful machine (C01 / C07)

def env_machine(oracles, summarise):
    """RuleBasedStateMachine over a real Environment + reference model. Assets for pause / unpause / cancel are
    drawn FROM THE CURRENT STATE (assets that have queued resp. paused events), so nearly every operation has an
    effect; the history is recorded as the same JSON operation list the plain interpreter replays."""
    from hypothesis import strategies as st
    from hypothesis.stateful import RuleBasedStateMachine, rule, precondition, invariant
    from engines import e1gen

    def factory(cap):
        class EnvMachine(RuleBasedStateMachine):
            def __init__(self):
                super().__init__()
                cap['ops'] = []
                self.m = E1({'weights': [0.5, 0.1, 0.5, 0.9], 'ops': []}, oracles)
                self.w = installed(Weights(script=[0.5, 0.1, 0.5, 0.9]))
                self.w.__enter__()
                self.do(['s', 1, 1, 5, []])
                self.do(['run', 0.75])

            def do(self, op):
                cap['ops'].append(op)
                self.m.apply(op)
                self.m.compare_pending()

            def assets(self, state):
                return sorted({r.asset for r in self.m.recs if r.state == state and not r.cancelled})

            @rule(a=e1gen.sched_asset, d=e1gen.delta, p=e1gen.prio, prog=e1gen.inner_ops(1))
            def schedule(self, a, d, p, prog):
                self.do(['s', a, d, p, prog])

            @precondition(lambda self: self.assets('q'))
            @rule(data=st.data())
            def pause_asset_with_queued_events(self, data):
                self.do(['p', data.draw(st.sampled_from(self.assets('q')))])

            @precondition(lambda self: self.assets('p'))
            @rule(data=st.data())
            def unpause_paused_asset(self, data):
                self.do(['u', data.draw(st.sampled_from(self.assets('p')))])

            @precondition(lambda self: self.assets('q') or self.assets('p'))
            @rule(data=st.data())
            def cancel_asset_with_events(self, data):
                self.do(['c', data.draw(st.sampled_from(self.assets('q') + self.assets('p')))])

            @rule(a=e1gen.asset, k=st.sampled_from(['p', 'u', 'c']))
            def any_asset(self, a, k):
                self.do([k, a])

            @precondition(lambda self: bool(self.m.env._events))
            @rule()
            def step(self):
                self.do(['step'])

            @rule(d=st.sampled_from([0, 0.25, 0.5, 1, 1.5, 2]))
            def run(self, d):
                self.do(['run', d])

            @rule(d=st.sampled_from([0.125, 1, 'ulp', 1e-12]))
            def past(self, d):
                self.do(['past', d])

            def teardown(self):
                self.w.__exit__(None, None, None)
                cap['done']({'weights': [0.5, 0.1, 0.5, 0.9], 'ops': list(cap['ops'])}, summarise(self.m))
        return EnvMachine
    return factory
