"""Hypothesis strategies for E2 cases."""
from hypothesis import strategies as st

NAMES = ['a', 'b', 'c']
amount_pool = st.sampled_from([-2, -1, -1, 0, 1, 1, 2, 3, 5])
name_any = st.sampled_from(['a', 'a', 'b', 'b', 'c', 'new', 'zzz'])
amt_req = st.sampled_from([-1, 0, 1, 1, 1, 2, 2, 3])
request_any = st.dictionaries(name_any, amt_req, min_size=1, max_size=3)


def pool_ops():
    add = st.tuples(st.just('add'), name_any, amount_pool).map(list)
    reserve = st.tuples(st.just('reserve'), request_any).map(list)
    release = st.tuples(st.just('release'), st.integers(0, 5),
                        st.one_of(st.none(), st.none(), st.dictionaries(name_any, st.sampled_from([-1, 0, 1, 1, 2, 5]),
                                                                         min_size=0, max_size=3))).map(list)
    merge = st.tuples(st.just('merge'), st.integers(0, 5), st.integers(0, 5)).map(list)
    return st.one_of(*([add] * 4 + [reserve] * 6 + [release] * 4 + [merge] * 2 + [st.just(['reinit'])]))


def pool_cases(max_ops):
    pre = st.lists(st.tuples(st.just('add'), st.sampled_from(NAMES), st.sampled_from([1, 2, 3, 5])).map(list),
                   min_size=1, max_size=3)
    # declared / asked before the simulation starts (before the manager gets its environment)
    early = st.lists(st.one_of(st.tuples(st.just('add'), st.sampled_from(NAMES), st.sampled_from([1, 2, 3])).map(list),
                               st.tuples(st.just('reserve'), st.dictionaries(st.sampled_from(NAMES), st.sampled_from([0, 1, 2, 3]),
                                                                             min_size=1, max_size=2)).map(list)),
                     min_size=0, max_size=5)
    return st.builds(lambda a, b, e, use: {'ops': b if use else a + b, 'before_start': (e[:len(e) // 2] + a + e[len(e) // 2:]) if use else []}, pre,
                     st.lists(pool_ops(), min_size=4, max_size=max_ops), early, st.sampled_from([False, False, True]))


# ---------------------------------------------------------------------------------- waiting requests
wname = st.sampled_from(NAMES)
wreq = st.dictionaries(wname, st.sampled_from([0, 1, 1, 1, 2, 2, 3]), min_size=1, max_size=3)


def behaviour(depth=2):
    base = st.one_of(st.just(['none']), st.just(['same']), st.just(['same']), st.just(['twice']),
                     st.tuples(st.just('other'), wreq).map(list),
                     st.tuples(st.just('release'), st.integers(0, 4)).map(list),
                     st.tuples(st.just('add'), wname, st.sampled_from([-1, 1, 2])).map(list))
    if depth <= 0:
        return base
    return st.one_of(base, base, st.tuples(st.just('more'), wreq, behaviour(depth - 1)).map(list))


def consume_behaviour(depth=2):
    base = st.one_of(st.just(['none']), st.just(['same']), st.just(['same']), st.just(['twice']),
                     st.tuples(st.just('other'), wreq).map(list))
    if depth <= 0:
        return base
    return st.one_of(base, base, st.tuples(st.just('more'), wreq, consume_behaviour(depth - 1)).map(list))


def waiter_ops(beh):
    add = st.tuples(st.just('add'), wname, st.sampled_from([-2, -1, 1, 1, 2, 2, 3])).map(list)
    reserve = st.tuples(st.just('reserve'), wreq).map(list)
    release = st.tuples(st.just('release'), st.integers(0, 4), st.sampled_from([None, None, 'part'])).map(list)
    # the 4th element: the caller changes its own dictionary right after registering (the manager must keep a copy)
    # 5th element: the very same registration call made twice (same request, same callback object)
    register = st.tuples(st.just('register'), wreq, beh, st.sampled_from([False, False, True]),
                         st.sampled_from([False, False, False, True])).map(lambda t: list(t[:4]) + [t[4] and not t[3]])
    advance = st.tuples(st.just('advance'), st.sampled_from([0, 0, 1, 2.5])).map(list)
    # the manager moves to a second environment only when no availability check is pending (right after an advance)
    move = st.just(['move'])
    return st.one_of(*([add] * 6 + [reserve] * 4 + [release] * 6 + [register] * 8 + [advance] * 4 + [move]))


def waiter_cases(max_ops, consume_only):
    beh = consume_behaviour() if consume_only else behaviour()
    tb = st.tuples(st.sampled_from(['random', 'fifo', 'lifo', 'const']), st.integers(0, 10 ** 6)).map(list)
    pre = st.lists(st.tuples(st.just('add'), wname, st.sampled_from([1, 1, 2, 3])).map(list), min_size=0, max_size=3)
    def expand(ops):
        out = []
        for o in ops:
            out += [['advance', 0], ['reinit']] if o == ['move'] else [o]
        return out
    return st.builds(lambda t, p, ops: {'tb': t, 'ops': p + expand(ops) + [['advance', 1]]}, tb, pre,
                     st.lists(waiter_ops(beh), min_size=6, max_size=max_ops))


def overcommit_cases():
    """Pools driven over capacity: several unit reservations, explicit reductions below usage, then partial and
    full releases / merges in generated order (capacity 'explicitly reduced below current usage')."""
    res = st.sampled_from([{'a': 1}, {'a': 1}, {'a': 2}, {'a': 1, 'b': 1}, {'b': 1}])
    reserve = st.tuples(st.just('reserve'), res).map(list)
    reduce_ = st.tuples(st.just('add'), st.sampled_from(['a', 'a', 'b']), st.sampled_from([-1, -1, -2, -3])).map(list)
    grow = st.tuples(st.just('add'), st.sampled_from(['a', 'b']), st.sampled_from([1, 2])).map(list)
    release = st.tuples(st.just('release'), st.integers(0, 5),
                        st.sampled_from([None, {'a': 1}, {'a': 1}, {'b': 1}, {'a': 2}, {'a': 1, 'b': 1}, {}])).map(list)
    merge = st.tuples(st.just('merge'), st.integers(0, 5), st.integers(0, 5)).map(list)
    tail = st.lists(st.one_of(reduce_, reduce_, release, release, release, merge, reserve, grow), min_size=3, max_size=14)
    return st.builds(lambda ca, cb, rs, t: {'ops': [['add', 'a', ca], ['add', 'b', cb]] + rs + t},
                     st.sampled_from([2, 3, 4]), st.sampled_from([1, 2]), st.lists(reserve, min_size=2, max_size=4), tail)


def overcommit_waiter_cases(consume_only=True):
    """Waiters in front of pools that are driven over capacity: reservations over two pools (both key orders), one pool
    then cut to or below its usage, waiters for the other pool, and releases of the two-pool reservations."""
    beh = consume_behaviour() if consume_only else behaviour()
    tb = st.tuples(st.sampled_from(['random', 'fifo', 'lifo', 'const']), st.integers(0, 10 ** 6)).map(list)
    two = st.sampled_from([{'a': 1, 'b': 1}, {'b': 1, 'a': 1}, {'b': 1, 'a': 2}, {'a': 1, 'b': 2}, {'a': 1}, {'b': 1}])
    reserve = st.tuples(st.just('reserve'), two).map(list)
    cut = st.tuples(st.just('add'), st.sampled_from(['a', 'b']), st.sampled_from([-1, -2, -3])).map(list)
    small = st.sampled_from([{'a': 1}, {'b': 1}, {'a': 2}, {'a': 1, 'b': 1}, {'b': 1, 'a': 1}, {'a': 1, 'zzz': 0}])
    register = st.tuples(st.just('register'), small, beh, st.just(False), st.just(False)).map(list)
    release = st.tuples(st.just('release'), st.integers(0, 4), st.sampled_from([None, 'part'])).map(list)
    advance = st.tuples(st.just('advance'), st.sampled_from([0, 1])).map(list)
    grow = st.tuples(st.just('add'), st.sampled_from(['a', 'b']), st.sampled_from([1, 2])).map(list)
    tail = st.lists(st.one_of(release, release, release, advance, advance, register, cut, grow, reserve), min_size=4,
                    max_size=16)
    return st.builds(lambda t, ca, cb, rs, cuts, regs, tl: {'tb': t, 'ops': [['add', 'a', ca], ['add', 'b', cb]] + rs
                                                           + [['advance', 1]] + cuts + regs + [['advance', 1]] + tl
                                                           + [['advance', 1]]},
                     tb, st.sampled_from([2, 3, 4]), st.sampled_from([2, 3]), st.lists(reserve, min_size=2, max_size=4),
                     st.lists(cut, min_size=1, max_size=2), st.lists(register, min_size=1, max_size=3), tail)


def fraction_cases(max_ops):
    """Decimal amounts (0.1, 0.6, 1.1, 1.7 ...): a request fits exactly when capacity minus usage, computed in floating
    point the way the statement spells it, is at least the amount - also when the difference lands exactly on it."""
    amt = st.sampled_from([0.1, 0.2, 0.3, 0.6, 0.7, 1.1, 1.7, 2.3, 0.5, 1])
    nm = st.sampled_from(['a', 'a', 'b'])
    add = st.tuples(st.just('add'), nm, st.one_of(amt, amt, amt.map(lambda v: -v))).map(list)
    reserve = st.tuples(st.just('reserve'), st.dictionaries(nm, amt, min_size=1, max_size=2)).map(list)
    release = st.tuples(st.just('release'), st.integers(0, 5), st.none()).map(list)
    pre = st.lists(st.tuples(st.just('add'), nm, amt).map(list), min_size=1, max_size=3)
    return st.builds(lambda a, b: {'ops': a + b, 'decimal': True}, pre,
                     st.lists(st.one_of(add, reserve, reserve, reserve, release, release), min_size=4, max_size=max_ops))
