"""E1t: the event trace on a bare Environment whose histories contain runs started from inside event actions (C15, trace
clause: "an enabled event trace lists exactly the executed events in execution order").

case = E1 case + {"trace": [flag, ...]}: the i-th call of run() (top level or nested, in call order) is made with
trace=flags[i % len(flags)].

What is expected of a harness event that executes (its message is "r<id>"):
  yes     the innermost active run was started with trace=True
  no      no active run was started with trace=True
  either  anything else (a nested run(trace=False) inside a traced run; a manual step() outside every run): the statement
          does not say which flag governs, so both are accepted
After every TOP-LEVEL run that was started with trace=True the exported file is read: restricted to harness events that are
not "either", it equals the (time, message) sequence of all "yes" events executed so far, in execution order, each stamped
with the clock at which its action ran. After a top-level run with trace=False the file is unchanged (or still absent)."""
import json
import os
import shutil
import tempfile

from engines.envmachine import E1


class E1t(E1):
    def __init__(self, case, oracles):
        super().__init__(case, oracles)
        self.flags = [bool(x) for x in (case.get('trace') or [True])]
        self.calls = 0
        self.stack = []
        self.expect = {}          # rec id -> 'yes' | 'no' | 'either'
        self.yes = []             # (time, 'r<id>') in execution order
        self.home = None
        self.nested_traced = False
        self._real_run = self.env.run
        self.last_file = None
        self.c.update({'traced_top_runs': 0, 'nested_in_traced': 0, 'trace_entries': 0, 'untraced_after_traced': 0})

    def path(self):
        return os.path.join(self.home, 'Downloads', f'{self.env.name}_trace.json')

    def read(self):
        if not os.path.exists(self.path()):
            return None
        with open(self.path()) as f:
            raw = json.load(f)
        return [(raw[k]['time'], raw[k]['message']) for k in sorted(raw, key=int)]

    def _on_action(self, r):
        if not self.stack:
            st = 'either'
        elif self.stack[-1]:
            st = 'yes'
        elif any(self.stack):
            st = 'either'
        else:
            st = 'no'
        if r.runs == 0:
            self.expect[r.id] = st
            if st == 'yes':
                self.yes.append((self.env.now, f'r{r.id}'))
        super()._on_action(r)

    def _run(self, d, nested=False):
        flag = self.flags[self.calls % len(self.flags)]
        self.calls += 1
        if nested and any(self.stack):
            self.c['nested_in_traced'] += 1
        if nested and flag:
            self.nested_traced = True       # a traced nested run exports the file when it ends
        self.stack.append(flag)
        prev = self.env.run
        self.env.run = lambda dur, _f=flag: self._real_run(dur, trace=_f)
        try:
            super()._run(d, nested)
        finally:
            self.env.run = prev
            self.stack.pop()
        if nested:
            return
        got = self.read()
        if flag:
            self.c['traced_top_runs'] += 1
            if got is None:
                self.bad('C15.trace', f'run({d}, trace=True) wrote no trace file')
            mine = [(t, m) for (t, m) in got if m[:1] == 'r' and m[1:].isdigit()]
            for (t, m) in mine:
                if self.expect.get(int(m[1:])) == 'no':
                    self.bad('C15.trace', f'the trace lists {m} at {t}, which executed while no run asked for a trace')
                if int(m[1:]) not in self.expect:
                    self.bad('C15.trace', f'the trace lists {m} at {t}, which has not executed')
            seq = [(t, m) for (t, m) in mine if self.expect.get(int(m[1:])) == 'yes']
            if seq != self.yes:
                k = next((i for i in range(min(len(seq), len(self.yes))) if seq[i] != self.yes[i]), min(len(seq), len(self.yes)))
                self.bad('C15.trace', f'traced events (time, message) in the exported trace {seq[max(0, k - 1):k + 2]} differ '
                         f'from the executed ones {self.yes[max(0, k - 1):k + 2]} at position {k} (trace has {len(seq)}, '
                         f'{len(self.yes)} executed under trace=True)')
            self.c['trace_entries'] = len(got)
        else:
            if self.last_file is not None:
                self.c['untraced_after_traced'] += 1
            if got != self.last_file and not self.nested_traced:
                self.bad('C15.trace', f'run({d}, trace=False) changed the exported trace file '
                         f'({None if self.last_file is None else len(self.last_file)} -> {None if got is None else len(got)} entries)')
        self.last_file = got
        self.nested_traced = False

    def execute(self):
        self.home = tempfile.mkdtemp(prefix='verif-home-')
        os.makedirs(os.path.join(self.home, 'Downloads'))
        old = os.environ.get('HOME')
        os.environ['HOME'] = self.home
        try:
            return super().execute()
        finally:
            if old is None:
                del os.environ['HOME']
            else:
                os.environ['HOME'] = old
            shutil.rmtree(self.home, ignore_errors=True)


def run(case):
    return E1t(case, ('C15',)).execute()
