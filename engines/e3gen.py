"""E3 generators: whole production models. All randomness comes from a Hypothesis-managed Random
(st.randoms(use_true_random=False)), so cases shrink and replay; the case itself is the JSON spec.

Well-posedness rules W1-W9 of DESIGN 2.7 hold by construction."""
from hypothesis import strategies as st

INF = 'inf'
GRID = [0, 0.25, 0.5, 1, 1, 1.5, 2, 3]
POS = [0.25, 0.5, 1, 1, 1.5, 2, 3]
PRIOS = [2, 2, 3, 5, 5, 6, 7, 8, 9, 10, 11, 4.5, 6.5, 7.5, 8.1, 11.5, 1.5]
TIMES = [0.5, 1, 1.25, 2, 2, 3, 4.5, 6, 7, 10, 13.5, 18]
TB = ['random', 'random', 'fifo', 'lifo', 'const']


def pick_T(rng, big=False):
    T = rng.choice([3, 8, 15, 25] if not big else [25, 60, 120, 200])
    r = rng.random()
    if r < 0.65:
        return [T]
    if r < 0.87:
        a = rng.choice([0.5, 1, 2.5, 4])
        return [a, max(0.5, T - a)]
    return [1, 2.5, max(0.5, T - 3.5)]


def actions(rng, spec, na, procs, blockable, sources, handlers=()):
    out = []
    res = list(spec['res'])
    for _ in range(na):
        t = rng.choice(TIMES)
        pr = rng.choice(PRIOS)
        r = rng.random()
        if procs and r < 0.16:
            out.append([t, pr, 'fail', rng.choice(procs), rng.choice([0, 0, 0.5, 1.25])])
        elif procs and r < 0.30:
            out.append([t, pr, 'maint', rng.choice(procs), rng.choice([0, 0.5, 1, 2.75])])
        elif procs and r < 0.36:
            out.append([t, pr, rng.choice(['restore', 'shutdown', 'shutdown']), rng.choice(procs)])
        elif procs and r < 0.46:
            out.append([t, pr, 'wo', rng.choice(procs)])
        elif (procs or handlers) and r < 0.54:
            out.append([t, pr, 'offset', rng.choice(list(procs) + list(handlers)), rng.choice([-5, -0.5, 0.25, 1])])
        elif r < 0.68 and blockable:
            out.append([t, pr, 'block', rng.choice(blockable), rng.random() < 0.5])
        elif r < 0.84 and res:
            out.append([t, pr, 'addres', rng.choice(res), rng.choice([-2, -1, 1, 1, 2])])
        elif sources:
            out.append([t, pr, 'adjust', rng.choice(sources), rng.choice([-2, 1, 3])])
    return out


def fail_during_maint(rng, procs):
    """A failure that hits a machine while it is shut down for maintenance (direct shutdown or work order)."""
    P = rng.choice(procs)
    t = rng.choice([1, 2, 3, 4.5, 6])
    how = rng.choice(['maint', 'wo'])
    first = [t, rng.choice(PRIOS), 'maint', P, rng.choice([1, 2.75])] if how == 'maint' else [t, rng.choice(PRIOS), 'wo', P]
    return [first, [t + rng.choice([0, 0.25, 0.5, 1]), rng.choice(PRIOS), 'fail', P, rng.choice([0, 0, 0.25])]]


def between_actions(rng, spec):
    """Unblocking (and blocking) API calls made between two simulate() calls, i.e. not from inside an event."""
    out = []
    devs = all_devs(spec)
    holders = [d for d in devs if d['k'] in ('H', 'P', 'B')]
    for _ in range(rng.choice([1, 1, 2, 3])):
        i = rng.randrange(len(spec['T']) - 1)
        r = rng.random()
        if r < 0.3 and len(holders) >= 2:
            x = rng.choice([d for d in spec['devs'] if d['k'] in ('H', 'P', 'B')] or [None])
            if x is not None:
                idx = spec['devs'].index(x)
                ups = [u['n'] for u in spec['devs'][:idx] if u['k'] in ('S', 'H', 'P', 'B') and u['n'] not in x['up']]
                if ups:
                    out.append([i, 'rewire_add', x['n'], rng.choice(ups)])
                    continue
        if r < 0.55:
            out.append([i, 'block', rng.choice([d['n'] for d in devs if d['k'] not in ('S', 'K')] or ['K0']), rng.random() < 0.4])
        elif r < 0.7 and spec['res']:
            out.append([i, 'addres', rng.choice(list(spec['res'])), rng.choice([1, 1, 2, -1])])
        elif r < 0.85:
            out.append([i, 'adjust', rng.choice(names_of(spec, 'S')), rng.choice([1, 3])])
        else:
            ps = names_of(spec, 'P')
            if ps:
                out.append([i, rng.choice(['restore', 'shutdown']), rng.choice(ps)])
    return [b for b in out if not (b[1] == 'block' and b[2] == 'K0' and not any(d['n'] == 'K0' for d in devs))]


def finish(rng, spec, profile, big=False, T=None):
    spec['tb'] = [rng.choice(TB), rng.randrange(10 ** 6)]
    spec['T'] = pick_T(rng, big)
    if T is not None:
        # a profile-specific horizon, split like the others
        spec['T'] = [T] if len(spec['T']) == 1 else [spec['T'][0], max(0.5, T - spec['T'][0])] if len(spec['T']) == 2 \
            else [1, 2.5, max(0.5, T - 3.5)]
    if len(spec['T']) > 1 and rng.random() < 0.7:
        spec['between'] = between_actions(rng, spec)
    spec['profile'] = profile
    spec.setdefault('maint', rng.choice([0, 1, 1, 2, 2, 3, INF]))
    for d in all_devs(spec):
        if d['k'] == 'G' and 'style' not in d and rng.random() < 0.5:
            d['style'] = rng.randrange(20)      # the decider says no / yes with None, 0, '', [] / 1, 'yes', [0]
    return spec


def all_devs(spec):
    return list(spec['devs']) + [d for g in spec['groups'] for d in g['devs']]


def names_of(spec, kinds):
    return [d['n'] for d in all_devs(spec) if d['k'] in kinds]


def resreq(rng, spec, p=0.6):
    if not spec['res'] or rng.random() > p:
        return None
    need = {k: rng.choice([1, 1, 2]) for k in spec['res'] if rng.random() < 0.7} or None
    if need and rng.random() < 0.25:
        # an entry asking for nothing: of a pool that was never declared, or of a declared one
        need[rng.choice(['ghost'] + list(spec['res']))] = 0
        if not any(v > 0 for v in need.values()):
            need[rng.choice(list(spec['res']))] = 1
    return need


def proc(rng, spec, name, up, cgrid=GRID):
    d = {'k': 'P', 'n': name, 'c': rng.choice(cgrid), 'up': up, 'res': resreq(rng, spec),
         'alt': rng.choice([None, None, None, 0, 0.5, 2]), 'wod': rng.choice([0, 0.5, 1.5, 3]),
         'wocap': rng.choice([0, 1, 1, 2]), 'wocost': rng.choice([0, 2, 2, 0.5, -1.5])}
    if rng.random() < 0.3:
        d['valadd'] = rng.choice([1, 2.5])
    if rng.random() < 0.15:
        d['rvaladd'] = rng.choice([0.5, 1])
    if rng.random() < 0.12:
        d['wear'] = rng.choice([0.5, 1])      # cycle_time getter overridden: slower at certain times
    return d


def handler(rng, name, up):
    d = {'k': 'H', 'n': name, 'c': rng.choice(GRID), 'up': up}
    if rng.random() < 0.15:
        d['alt'] = rng.choice([0, 0.5, 2])
    if rng.random() < 0.15:
        d['rvaladd'] = rng.choice([0.5, 1])
    return d


def source(rng, name, batch_p=0.25):
    c = rng.choice(GRID)
    budget = rng.choice([INF, INF, 1, 3, 7, 12, 0, 2.5, 6.75]) if c > 0 else rng.choice([1, 3, 7, 12, 0, 2.5])      # W1 (fractional: only whole parts are supplied)
    batch = None
    if rng.random() < batch_p:
        batch = rng.choice([0, 2, 3, [1, 3], [2, 0, 4], [3, 2]])
    d = {'k': 'S', 'n': name, 'c': c, 'budget': budget, 'batch': batch, 'val': rng.choice([0, 1, 2.5])}
    if batch is not None and rng.random() < 0.4:
        d['pallet'] = True      # batches are instances of a user-defined subclass of Batch
    return d


# ------------------------------------------------------------------------------------------ general

def gen_general(rng, with_group=True):
    spec = {'devs': [], 'groups': [], 'res': {}, 'actions': []}
    devs = spec['devs']
    for i in range(rng.choice([0, 0, 1, 2])):
        spec['res'][f'r{i}'] = rng.choice([0, 1, 1, 2, 3])
    prev = []
    for i in range(rng.choice([1, 1, 2])):
        devs.append(source(rng, f'S{i}'))
        prev.append(f'S{i}')
    groups = []
    if with_group and rng.random() < 0.5:
        gd = []
        for j in range(rng.choice([1, 1, 2, 3])):
            k = rng.choice(['P', 'P', 'H', 'B'])
            up = [gd[-1]['n']] if gd else []
            if k == 'P':
                d = proc(rng, spec, f'G0d{j}', up)
            elif k == 'H':
                d = handler(rng, f'G0d{j}', up)
            else:
                d = {'k': 'B', 'n': f'G0d{j}', 'c': rng.choice(GRID), 'cap': rng.choice([1, 2, INF]), 'up': up}
            gd.append(d)
        spec['groups'].append({'n': 'G0', 'devs': gd})
        groups.append('G0')
    cnt = 0
    for s in range(rng.randint(1, 4)):
        cur = []
        for w in range(rng.choice([1, 1, 2, 3])):
            cnt += 1
            up = [u for u in prev if rng.random() < 0.8] or [rng.choice(prev)]
            r = rng.random()
            if groups and r < 0.25:
                d = {'k': 'GP', 'n': f'GP{cnt}', 'g': 'G0', 'up': up}
            elif r < 0.45:
                d = proc(rng, spec, f'P{cnt}', up)
            elif r < 0.6:
                d = handler(rng, f'H{cnt}', up)
            elif r < 0.75:
                d = {'k': 'B', 'n': f'B{cnt}', 'c': rng.choice(GRID), 'cap': rng.choice([1, 2, 3, INF]), 'up': up}
            elif r < 0.87:
                d = {'k': 'BA', 'n': f'BA{cnt}', 'size': rng.choice([None, 2, 3]), 'up': up}
            else:
                m = rng.choice([2, 3])    # complementary gate pair (W3) feeding one handler
                devs.append({'k': 'G', 'n': f'Ga{cnt}', 'mod': m, 'neg': False, 'up': list(up)})
                devs.append({'k': 'G', 'n': f'Gb{cnt}', 'mod': m, 'neg': True, 'up': list(up)})
                d = handler(rng, f'H{cnt}', [f'Ga{cnt}', f'Gb{cnt}'])
            if d['k'] == 'GP':
                kinds = {x['n']: x['k'] for x in devs}
                d['up'] = [u for u in d['up'] if kinds.get(u) not in ('GP', 'G')]
                if not d['up']:
                    d = handler(rng, f'H{cnt}', up)
            devs.append(d)
            cur.append(d['n'])
        for p in prev:
            if not any(p in d.get('up', []) for d in devs):
                rng.choice([d for d in devs if d['n'] in cur])['up'].append(p)
        prev = cur
    for i in range(rng.choice([1, 1, 2])):
        up = [u for u in prev if rng.random() < 0.8] or [rng.choice(prev)]
        devs.append({'k': 'K', 'n': f'K{i}', 'c': rng.choice(GRID), 'up': up})
    for p in prev:
        if not any(p in d.get('up', []) for d in devs if d['k'] == 'K'):
            devs[-1]['up'].append(p)
    fix_batchers(spec)
    procs = names_of(spec, 'P')
    blockable = names_of(spec, ('P', 'H', 'B', 'BA', 'GP', 'G'))
    spec['actions'] = actions(rng, spec, rng.choice([0, 2, 5, 9]), procs, blockable, names_of(spec, 'S'),
                              [d['n'] for d in all_devs(spec) if d['k'] in ('H', 'K')])   # one-shot offsets: also sinks
    if rng.random() < 0.2:
        # a sink that is usually instantaneous (or quick) takes longer for single parts: one-shot positive offsets
        k = rng.choice([d for d in devs if d['k'] == 'K'])
        if rng.random() < 0.7:
            k['c'] = 0
        for _ in range(rng.choice([1, 2, 4])):
            spec['actions'].append([rng.choice(TIMES), rng.choice(PRIOS), 'offset', k['n'], rng.choice([0.5, 1, 2.5])])
    # mid-run rewiring (add a connection from an earlier holding device)
    if rng.random() < 0.2:
        cands = [d for d in devs if d['k'] in ('H', 'P', 'B')]
        if cands:
            x = rng.choice(cands)
            idx = devs.index(x)
            ups = [u['n'] for u in devs[:idx] if u['k'] in ('S', 'H', 'P', 'B') and u['n'] not in x['up']]
            if ups:
                spec['actions'].append([rng.choice(TIMES), rng.choice(PRIOS), 'rewire_add', x['n'], rng.choice(ups)])
    return finish(rng, spec, 'general')


def fix_batchers(spec):
    """W4: no batcher inside a group; a batch-producing source must not feed a group path through a batcher."""
    return spec


# ------------------------------------------------------------------------- groups (nested / chained)

def gen_group_drain(rng):
    """A group path whose input is blocked for a long while (or for good) while parts are still inside the group and
    the device after the path is slower than the group: the parts inside must still drain through the path."""
    spec = {'devs': [], 'groups': [], 'res': {}, 'actions': []}
    devs = spec['devs']
    devs.append(source(rng, 'S0', batch_p=0.1))
    if devs[0]['c'] == 0:
        devs[0]['c'] = rng.choice([0.5, 1])
    devs[0]['budget'] = rng.choice([INF, INF, 7, 12])
    up = ['S0']
    if rng.random() < 0.3:
        devs.append(handler(rng, 'H0', up))
        up = ['H0']
    gd = []
    for j in range(rng.choice([1, 1, 2])):
        k = rng.choice(['P', 'P', 'H', 'B'])
        u = [gd[-1]['n']] if gd else []
        if k == 'P':
            gd.append(proc(rng, spec, f'G0d{j}', u))
        elif k == 'H':
            gd.append({'k': 'H', 'n': f'G0d{j}', 'c': rng.choice(GRID), 'up': u})
        else:
            gd.append({'k': 'B', 'n': f'G0d{j}', 'c': rng.choice(GRID), 'cap': rng.choice([1, 2, 3]), 'up': u})
    spec['groups'].append({'n': 'G0', 'devs': gd})
    paths = ['GPa']
    devs.append({'k': 'GP', 'n': 'GPa', 'g': 'G0', 'up': up})
    if rng.random() < 0.35:
        devs.append({'k': 'S', 'n': 'S1', 'c': rng.choice([0.5, 1, 2]), 'budget': rng.choice([INF, 5]), 'batch': None,
                     'val': 0})
        devs.append({'k': 'GP', 'n': 'GPb', 'g': 'G0', 'up': ['S1']})
        paths.append('GPb')
    after = []
    for i, gp in enumerate(paths):
        if rng.random() < 0.3:
            devs.append({'k': 'B', 'n': f'B{i}', 'c': rng.choice([0, 1]), 'cap': rng.choice([1, 2]), 'up': [gp]})
            after.append(f'B{i}')
        else:
            after.append(gp)
    if len(after) == 2 and rng.random() < 0.5:
        devs.append({'k': 'K', 'n': 'K0', 'c': rng.choice([2, 3, 4.5]), 'up': [after[0]]})
        devs.append({'k': 'K', 'n': 'K1', 'c': rng.choice([1, 2, 4.5]), 'up': [after[1]]})
    else:
        devs.append({'k': 'K', 'n': 'K0', 'c': rng.choice([2, 3, 4.5, 6]), 'up': after})
    acts = []
    for gp in paths:
        if rng.random() < 0.8:
            t = rng.choice([2, 3, 4.5, 6, 7])
            acts.append([t, rng.choice(PRIOS), 'block', gp, True])
            if rng.random() < 0.6:
                acts.append([t + rng.choice([4, 7.5, 11, 20]), rng.choice(PRIOS), 'block', gp, False])
    procs = names_of(spec, 'P')
    acts += actions(rng, spec, rng.choice([0, 0, 1, 3]), procs, procs + paths, ['S0'])
    spec['actions'] = acts
    spec = finish(rng, spec, 'groups', T=rng.choice([20, 30, 40]))
    spec.pop('between', None)
    return spec


def gen_groups(rng):
    if rng.random() < 0.2:
        return gen_group_drain(rng)
    spec = gen_general(rng, with_group=False)
    spec['actions'] = [a for a in spec['actions'] if a[2] != 'rewire_add']

    def gdev(prefix, j, up):
        k = rng.choice(['P', 'P', 'H', 'B'])
        if k == 'B':
            return {'k': 'B', 'n': f'{prefix}d{j}', 'c': rng.choice(GRID), 'cap': rng.choice([1, 2, INF]), 'up': up}
        if k == 'P':
            d = proc(rng, spec, f'{prefix}d{j}', up)
            return d
        return {'k': 'H', 'n': f'{prefix}d{j}', 'c': rng.choice(GRID), 'up': up}

    groups = []
    g0 = []
    n0 = rng.choice([1, 2, 3])
    par = n0 >= 2 and rng.random() < 0.3
    for j in range(n0):
        g0.append(gdev('G0', j, [] if (j == 0 or par) else [g0[-1]['n']]))
    G0 = {'n': 'G0', 'devs': g0}
    if par:
        G0['in'] = [d['n'] for d in g0]
        G0['out'] = [d['n'] for d in g0]
    elif rng.random() < 0.08:
        # two entry machines in front of one exit device; the second entry machine is named only in input_override (the
        # documentation adds such devices to the group), the exit is the last LISTED device
        a1, a2 = gdev('G0', 0, []), gdev('G0', 1, [])
        b = {'k': 'H', 'n': 'G0d2', 'c': rng.choice(GRID), 'up': ['G0d0', 'G0d1']}
        G0 = {'n': 'G0', 'devs': [a1, a2, b], 'in': ['G0d0', 'G0d1'], 'listed': ['G0d0', 'G0d2']}
    groups.append(G0)
    if rng.random() < 0.5:
        g1 = []
        pos = rng.choice(['mid', 'end', 'start', 'only'])
        if pos in ('mid', 'end'):
            g1.append(gdev('G1', 0, []))
        g1.append({'k': 'GP', 'n': 'G1gp', 'g': 'G0', 'up': [g1[-1]['n']] if g1 else []})
        if pos in ('mid', 'start'):
            g1.append(gdev('G1', 2, ['G1gp']))
        groups.append({'n': 'G1', 'devs': g1})
    spec['groups'] = groups
    gnames = [g['n'] for g in groups]
    devs = spec['devs']
    batchy = any(d['k'] == 'BA' for d in devs)
    for i, d in enumerate(devs):
        if d['k'] == 'H' and rng.random() < 0.4 and not any(u[:2] in ('Ga', 'Gb') for u in d['up']):
            new = 'GP' + d['n'][1:] + 'x'
            devs[i] = {'k': 'GP', 'n': new, 'g': rng.choice(gnames), 'up': d['up']}
            for x in devs:
                if 'up' in x:
                    x['up'] = [new if u == d['n'] else u for u in x['up']]
            spec['actions'] = [[new if (isinstance(v, str) and v == d['n']) else v for v in a] for a in spec['actions']]
    if batchy:
        # W4: batches created by a batcher carry no group-path stack; keep batchers out of models with paths
        for i, d in enumerate(devs):
            if d['k'] == 'BA':
                devs[i] = {'k': 'H', 'n': d['n'], 'c': 0.5, 'up': d['up']}
    allk = {d['n']: d['k'] for d in all_devs(spec)}
    keep = []
    for a in spec['actions']:
        if a[2] in ('fail', 'maint', 'restore', 'shutdown', 'wo') and allk.get(a[3]) != 'P':
            continue
        if a[2] == 'offset' and allk.get(a[3]) not in ('P', 'H', 'K'):
            continue
        if a[2] == 'block' and a[3] not in allk:
            continue
        keep.append(a)
    gp_names = [n for n, k in allk.items() if k in ('P', 'GP')]
    only_gp = [n for n, k in allk.items() if k == 'GP']
    for _ in range(rng.choice([0, 1, 3, 5]) if gp_names else 0):
        # block / unblock group paths (and processors) while parts are inside the group
        pool = only_gp if (only_gp and rng.random() < 0.6) else gp_names
        t = rng.choice(TIMES)
        keep.append([t, rng.choice(PRIOS), 'block', rng.choice(pool), rng.random() < 0.6])
        if rng.random() < 0.5:
            keep.append([t + rng.choice([0.5, 1.5, 3]), rng.choice(PRIOS), 'block', keep[-1][3], False])
    if rng.random() < 0.25:
        # an existing group path gets a further upstream while the simulation runs
        tops = spec['devs']
        gps = [d for d in tops if d['k'] == 'GP']
        if gps:
            x = rng.choice(gps)
            idx = tops.index(x)
            ups = [u['n'] for u in tops[:idx] if u['k'] in ('S', 'H', 'P', 'B') and u['n'] not in x['up']]
            if ups:
                keep.append([rng.choice(TIMES), rng.choice(PRIOS), 'rewire_add', x['n'], rng.choice(ups)])
    tops_gp = [d for d in spec['devs'] if d['k'] == 'GP']
    if tops_gp and rng.random() < 0.15:
        # a side line of its own (fast source, slow handler, sink) whose source becomes, in the middle of the run, a
        # further upstream of an EXISTING group path: it was never upstream of that group, is refused while the group's
        # input is busy and from then on depends on the group's space notification (seed C03-20)
        x = rng.choice(tops_gp)
        spec['devs'].append({'k': 'S', 'n': 'SR', 'c': rng.choice([0, 0.25, 0.5]), 'budget': INF if rng.random() < 0.7 else 6,
                             'batch': None, 'val': 0})
        if spec['devs'][-1]['c'] == 0:
            spec['devs'][-1]['budget'] = 6          # W: an unlimited source needs a positive cycle time
        spec['devs'].append({'k': 'H', 'n': 'HR', 'c': rng.choice([3, 4.5, 6, 8]), 'up': ['SR']})
        spec['devs'].append({'k': 'K', 'n': 'KR', 'c': rng.choice([0, 1, 2]), 'up': ['HR']})
        keep.append([rng.choice([2, 3, 4.5, 6, 7]), rng.choice(PRIOS), 'rewire_add', x['n'], 'SR'])
    spec['actions'] = keep
    spec['profile'] = 'groups'
    spec.pop('between', None)
    if len(spec['T']) > 1 and rng.random() < 0.7:
        spec['between'] = [b for b in between_actions(rng, spec) if b[1] != 'rewire_add']
    return spec


# -------------------------------------------------------------------------------------- contention

def gen_contention(rng):
    spec = {'devs': [], 'groups': [], 'res': {}, 'actions': []}
    devs = spec['devs']
    npool = rng.choice([1, 1, 2])
    k = rng.choice([2, 3, 4])
    for i in range(npool):
        spec['res'][f'r{i}'] = rng.choice([0, 1, 1, 2])
    ns = rng.choice([1, 2])
    for i in range(ns):
        devs.append({'k': 'S', 'n': f'S{i}', 'c': rng.choice([0.25, 0.5, 1]), 'budget': rng.choice([INF, 6, 15]),
                     'batch': None, 'val': 1})
    srcs = [f'S{i}' for i in range(ns)]
    front = rng.choice(['buf', 'direct', 'hand', 'gate'])
    if front == 'gate':
        # an always-accepting gate fans out to the processors: the pass-through device offers the part
        devs.append({'k': 'B', 'n': 'B0', 'c': 0, 'cap': rng.choice([2, 4]), 'up': srcs})
        devs.append({'k': 'G', 'n': 'Gf', 'q': 0, 'neg': False, 'up': ['B0']})
        up = ['Gf']
    elif front == 'buf':
        devs.append({'k': 'B', 'n': 'B0', 'c': 0, 'cap': rng.choice([1, 2, 4]), 'up': srcs})
        up = ['B0']
    elif front == 'hand':
        devs.append({'k': 'H', 'n': 'H0', 'c': 0.25, 'up': srcs})
        up = ['H0']
    else:
        up = srcs
    ps = []
    for j in range(k):
        need = {r: rng.choice([1, 1, 2]) for r in spec['res'] if rng.random() < 0.85} or {'r0': 1}
        if rng.random() < 0.2:
            need['ghost'] = 0       # nothing of an undeclared pool
        devs.append({'k': 'P', 'n': f'P{j}', 'c': rng.choice([0, 0.5, 1, 2, 3]), 'up': list(up), 'res': need,
                     'alt': None, 'wod': rng.choice([0.5, 2]), 'wocap': 1, 'wocost': 2})
        ps.append(f'P{j}')
    if rng.random() < 0.5:
        devs.append({'k': 'B', 'n': 'B1', 'c': 0, 'cap': rng.choice([1, 3]), 'up': list(ps)})
        need = {r: 1 for r in spec['res'] if rng.random() < 0.7} or None
        devs.append({'k': 'P', 'n': f'P{k}', 'c': rng.choice([0.5, 1.5]), 'up': ['B1'], 'res': need, 'alt': None,
                     'wod': 1, 'wocap': 1, 'wocost': 2})
        last = [f'P{k}']
        ps.append(f'P{k}')
    else:
        last = list(ps)
    devs.append({'k': 'K', 'n': 'K0', 'c': rng.choice([0, 0.5, 2]), 'up': last})
    for i in range(rng.choice([2, 4, 8, 12])):
        t = rng.choice([1, 2, 2.5, 3, 4, 5.5, 7, 9, 12, 15, 18])
        pr = rng.choice(PRIOS)
        r = rng.random()
        if r < 0.45:
            spec['actions'].append([t, pr, 'addres', rng.choice(list(spec['res'])), rng.choice([-2, -1, 1, 1, 2])])
        elif r < 0.6:
            spec['actions'].append([t, pr, 'fail', rng.choice(ps), 0])
        elif r < 0.68:
            spec['actions'].append([t, pr, 'wo', rng.choice(ps)] + ([rng.choice(['x', 'y'])] if rng.random() < 0.4 else []))
        elif r < 0.78:
            spec['actions'].append([t, pr, 'maint', rng.choice(ps), rng.choice([0.5, 1, 2.75])])
        elif r < 0.85:
            spec['actions'].append([t, pr, 'restore', rng.choice(ps)])
        else:
            spec['actions'].append([t, pr, 'block', rng.choice(ps), rng.random() < 0.5])
    if rng.random() < 0.35:
        spec['actions'] += fail_during_maint(rng, ps)
    if rng.random() < 0.3:
        # a processor goes down (possibly while it waits for resources), resources arrive while it is down, it comes
        # back, and contention continues afterwards
        for _ in range(rng.choice([1, 2])):
            t = rng.choice([0.5, 1, 2, 3, 4.5, 6])
            x = rng.choice(ps)
            spec['actions'].append([t, rng.choice(PRIOS), rng.choice(['shutdown', 'shutdown', 'fail']), x])
            if spec['actions'][-1][2] == 'fail':
                spec['actions'][-1].append(0)
            spec['actions'].append([t + rng.choice([0.25, 0.5, 1]), rng.choice(PRIOS), 'addres', rng.choice(list(spec['res'])),
                                    rng.choice([1, 1, 2])])
            spec['actions'].append([t + rng.choice([1, 1.5, 2.5]), rng.choice(PRIOS), 'restore', x])
            if rng.random() < 0.5:
                spec['actions'].append([t + rng.choice([3, 4, 6]), rng.choice(PRIOS), 'addres', rng.choice(list(spec['res'])),
                                        rng.choice([-1, -2])])
    if rng.random() < 0.3:
        # maintenance that starts in the very instant of a back-to-back hand-over, after the hand-over events (PASS_PART, 7)
        # and before the deferred release check (6) of that instant
        for _ in range(rng.choice([1, 2, 4])):
            t = rng.choice([1, 2, 3, 4, 6, 1.5, 2.5])
            x = rng.choice(ps)
            spec['actions'].append([t, 6.5, rng.choice(['maint', 'maint', 'shutdown']), x] + [rng.choice([0.5, 1, 2.75])])
            if spec['actions'][-1][2] == 'shutdown':
                spec['actions'][-1] = spec['actions'][-1][:4]
                spec['actions'].append([t + rng.choice([0.5, 1.25, 3]), rng.choice(PRIOS), 'restore', x])
    if rng.random() < 0.25:
        # deliveries: the sources hold few parts and are topped up by low-priority events, several of them at the same
        # instant, so that a (zero-cycle) processor gets parts again after its deferred release event of that instant
        for d in devs:
            if d['k'] == 'S':
                d['c'] = rng.choice([0, 0, 0.25])
                d['budget'] = rng.choice([0, 1, 2])
        for d in devs:
            if d['k'] == 'P' and rng.random() < 0.6:
                d['c'] = 0
        slots = rng.sample([1, 2, 3, 4.5, 5, 6, 8, 11], 3)
        for i in range(rng.choice([3, 5, 8])):
            spec['actions'].append([rng.choice(slots), rng.choice([2, 2, 2, 3, 5, 4.5, 1.5, 7]), 'adjust', rng.choice(srcs),
                                    rng.choice([1, 1, 2, 3])])
    spec = finish(rng, spec, 'contention', T=rng.choice([8, 15, 30]))
    return spec


# ----------------------------------------------------------------------------------------- buffers

def gen_resonance(rng):
    """Decimal resonance: a buffered part's due time (arrival on a coarse clean clock + a decimal delay) and the
    moments its consumer becomes free (a fine clock reached by summing 0.1 many times) differ by a few roundings."""
    spec = {'devs': [], 'groups': [], 'res': {}, 'actions': []}
    devs = spec['devs']
    devs.append({'k': 'S', 'n': 'S0', 'c': rng.choice([0.5, 1, 0.3, 1.5]), 'budget': rng.choice([10, 20]), 'batch': None, 'val': 1})
    devs.append({'k': 'S', 'n': 'S1', 'c': 0.1, 'budget': rng.choice([40, 70]), 'batch': None, 'val': 1})
    devs.append({'k': 'B', 'n': 'B0', 'c': rng.choice([0.1, 0.2, 0.3, 0.6]), 'cap': rng.choice([1, 2, 3]), 'up': ['S0']})
    devs.append({'k': 'H', 'n': 'H0', 'c': 0.1, 'up': ['B0', 'S1']})
    devs.append({'k': 'K', 'n': 'K0', 'c': 0, 'up': ['H0']})
    spec = finish(rng, spec, 'buffers-noise-resonance')
    spec['T'] = [rng.choice([4.3, 7.3])]
    spec.pop('between', None)
    return spec


def gen_buffers(rng, noise=False):
    if noise and rng.random() < 0.35:
        return gen_resonance(rng)
    spec = {'devs': [], 'groups': [], 'res': {}, 'actions': []}
    devs = spec['devs']
    grid = [0.1, 0.3, 0.7, 1 / 3, 3.7, 0.2, 1.1] if noise else GRID
    dgrid = grid + [1e-3] if noise else grid       # tiny values only as buffer delays (they do not multiply events)
    if rng.random() < 0.4:
        spec['res']['r0'] = rng.choice([0, 1, 1])
    ns = rng.choice([1, 2, 3])
    for i in range(ns):
        s = source(rng, f'S{i}', batch_p=0.5)
        s['c'] = rng.choice(grid if not noise else [0.3, 0.7, 1 / 3, 1.1])
        if s['c'] == 0 and s['budget'] == INF:
            s['budget'] = 7
        devs.append(s)
    prev = [f'S{i}' for i in range(ns)]
    if rng.random() < 0.3:
        devs.append({'k': 'BA', 'n': 'BA0', 'size': rng.choice([2, 3, 4]), 'up': prev})
        prev = ['BA0']
    nb = rng.choice([1, 1, 2, 3])
    for j in range(nb):
        devs.append({'k': 'B', 'n': f'B{j}', 'c': rng.choice(dgrid if noise else [0, 0, 0] + grid),
                     'cap': rng.choice([1, 2, 3, 4, 4, INF, 1.5, 3.7]), 'up': prev})
        prev = [f'B{j}']
        if rng.random() < 0.4 and j < nb - 1:
            devs.append({'k': 'H', 'n': f'Hm{j}', 'c': rng.choice(grid), 'up': prev})
            prev = [f'Hm{j}']
    cons = []
    for j in range(rng.choice([1, 2, 3])):
        r = rng.random()
        if r < 0.5:
            d = proc(rng, spec, f'P{j}', list(prev), grid)
            d['alt'] = None
        elif r < 0.7:
            d = {'k': 'BA', 'n': f'BAc{j}', 'size': rng.choice([None, 2, 3]), 'up': list(prev)}
        else:
            d = {'k': 'H', 'n': f'H{j}', 'c': rng.choice(grid), 'up': list(prev)}
        devs.append(d)
        cons.append(d['n'])
    devs.append({'k': 'K', 'n': 'K0', 'c': rng.choice(grid), 'up': cons})
    procs = names_of(spec, 'P')
    spec['actions'] = actions(rng, spec, rng.choice([0, 2, 4, 7]), procs, names_of(spec, ('P', 'H', 'B', 'BA')),
                              names_of(spec, 'S'), names_of(spec, ('H', 'B')))     # one-shot offsets also on buffers
    long_run = (not noise) and rng.random() < 0.12
    spec = finish(rng, spec, 'buffers-noise' if noise else 'buffers', big=long_run)
    if long_run:
        # a long run in front of a bottleneck: the first buffer stays non-empty through hundreds of releases
        for d in devs:
            if d['k'] == 'S':
                d['c'], d['budget'] = rng.choice([0.25, 0.5]), INF
        spec['actions'] = [a for a in spec['actions'] if a[2] not in ('fail', 'shutdown', 'adjust')]
    if noise:
        spec['T'] = [rng.choice([7.3, 12.9, 19.9])]
        spec.pop('between', None)
    elif len(spec['T']) > 1 and rng.random() < 0.6:
        # a machine with its own sink is attached between two simulate() calls to a device of a (congested) line
        feeders = [d['n'] for d in devs if d['k'] in ('S', 'B', 'P', 'H')]
        spec.setdefault('between', []).append([rng.randrange(len(spec['T']) - 1), 'newline',
                                               rng.sample(feeders, min(len(feeders), rng.choice([1, 2, 9]))),
                                               rng.choice([0, 0.5, 1, 2])])
    return spec


# ------------------------------------------------------------------------------------ interruptions

def gen_interrupt(rng):
    spec = {'devs': [], 'groups': [], 'res': {}, 'actions': []}
    devs = spec['devs']
    if rng.random() < 0.4:
        spec['res']['r0'] = rng.choice([1, 1, 2])
    ns = rng.choice([1, 1, 2])
    for i in range(ns):
        devs.append({'k': 'S', 'n': f'S{i}', 'c': rng.choice([0.25, 0.5, 1, 1.5, 3]),
                     'budget': rng.choice([INF, 9, 20, 2, 3, 5]),
                     'batch': rng.choice([None, None, None, None, None, 0, [2, 0], [0, 1]]), 'val': rng.choice([0, 1])})
    prev = [f'S{i}' for i in range(ns)]
    if rng.random() < 0.4:
        devs.append({'k': 'B', 'n': 'B0', 'c': 0, 'cap': rng.choice([1, 2, INF]), 'up': prev})
        prev = ['B0']
    procs = []
    handlers = []
    for s in range(rng.choice([1, 2, 3])):
        cur = []
        for w in range(rng.choice([1, 1, 2])):
            nm = f'P{s}{w}'
            if rng.random() < 0.75:
                d = proc(rng, spec, nm, list(prev), [0, 0.5, 1, 1.5, 2, 3, 4.5])
                d['alt'] = rng.choice([None, 0, 0.5, 2, 3.5])
                procs.append(nm)
            else:
                nm = f'H{s}{w}'
                d = {'k': 'H', 'n': nm, 'c': rng.choice(GRID), 'up': list(prev), 'alt': rng.choice([None, 0.5, 2])}
                handlers.append(nm)
            devs.append(d)
            cur.append(nm)
        prev = cur
    devs.append({'k': 'K', 'n': 'K0', 'c': rng.choice([0, 0, 0.5, 1]), 'up': prev})
    acts = []
    for _ in range(rng.choice([3, 6, 10, 14])):
        t = rng.choice(TIMES + [2, 3, 4.5])
        pr = rng.choice(PRIOS)
        P = rng.choice(procs) if procs else None
        r = rng.random()
        if P and r < 0.2:
            acts.append([t, pr, 'fail', P, rng.choice([0, 0, 0.5, 1.25])])
        elif P and r < 0.4:
            acts.append([t, pr, 'maint', P, rng.choice([0, 0.5, 1, 2.75])])
        elif P and r < 0.5:
            acts.append([t, pr, rng.choice(['shutdown', 'restore', 'restore']), P])
        elif P and r < 0.7:
            acts.append([t, pr, 'wo', P] + ([rng.choice(['x', 'y'])] if rng.random() < 0.5 else []))
        elif r < 0.9:
            acts.append([t, pr, 'offset', rng.choice(procs + handlers + ['K0']), rng.choice([-5, -0.5, 0.25, 1, 2])])
        elif spec['res']:
            acts.append([t, pr, 'addres', 'r0', rng.choice([-1, 1])])
    if procs and rng.random() < 0.35:
        acts += fail_during_maint(rng, procs)
    if procs and rng.random() < 0.2:
        # a machine that resets itself: its shutdown callback restores it at once after a failure
        for d in devs:
            if d['n'] == rng.choice(procs):
                d['autoreset'] = True
    if procs and rng.random() < 0.3:
        # the same part interrupted by two (or three) maintenance windows within one long cycle
        P = rng.choice(procs)
        for d in devs:
            if d['n'] == P:
                d['c'] = rng.choice([3, 4.5, 6])
                d['alt'] = None
        t = rng.choice([1, 2, 3.5])
        for _ in range(rng.choice([2, 2, 3])):
            acts.append([t, rng.choice(PRIOS), rng.choice(['maint', 'maint', 'wo']), P, rng.choice([0.5, 1])])
            t += rng.choice([1.25, 1.5, 2])
        acts[:] = [a[:4] if a[2] == 'wo' else a for a in acts]
    srcs = names_of(spec, 'S')
    for _ in range(rng.choice([0, 0, 1, 2])):
        acts.append([rng.choice(TIMES), rng.choice(PRIOS), 'adjust', rng.choice(srcs), rng.choice([-1, 1, 2, 3])])
    if rng.random() < 0.3:
        # a source that runs dry and is refilled less than one cycle after its last supply
        d = devs[0]
        d['budget'] = rng.choice([1, 2, 3])
        d['c'] = rng.choice([1.5, 3])
        acts.append([d['budget'] * d['c'] + rng.choice([0, 0.25, 0.5, 1]), rng.choice(PRIOS), 'adjust', d['n'],
                     rng.choice([1, 2, 3])])
    spec['actions'] = acts
    spec = finish(rng, spec, 'interrupt')
    if len(spec['T']) > 1 and rng.random() < 0.5:
        # a machine (with its own sink) created between two simulate() calls, fed by an existing device
        feeders = [d['n'] for d in devs if d['k'] in ('S', 'B', 'P', 'H')]
        spec.setdefault('between', []).append([0, 'newline', [rng.choice(feeders)], rng.choice([0.5, 1, 2])])
    if len(spec['T']) > 1 and rng.random() < 0.6:
        # a source (with its own sink) created between two simulate() calls: its first cycle starts then
        spec.setdefault('between', []).append([0, 'newsource', rng.choice([1, 2.5, 4, 8]), rng.choice([3, 8])])
    elif rng.random() < 0.3:
        # ... or from inside an event
        spec['actions'].append([rng.choice([0.5, 1, 2, 3, 4.5]), rng.choice(PRIOS), 'newsource', rng.choice([1, 2.5, 4, 8]),
                                rng.choice([3, 8])])
    if rng.random() < 0.3:
        # a source that starts with no downstream at all; a machine with its own sink is attached to it later (from an
        # event, or between two runs)
        devs.insert(0, {'k': 'S', 'n': 'SL', 'c': rng.choice([0.5, 1, 2]), 'budget': rng.choice([INF, 4]), 'batch': None,
                        'val': 1})
        if len(spec['T']) > 1 and rng.random() < 0.5:
            spec['between'] = [b for b in spec.get('between', []) if b[1] != 'newline']
            spec['between'].append([0, 'newline', ['SL'], rng.choice([0, 0.5, 1])])
        else:
            spec['between'] = [b for b in spec.get('between', []) if b[1] != 'newline']
            spec['actions'].append([rng.choice([1, 2.5, 3, 4.5]), rng.choice(PRIOS), 'newline', ['SL'], rng.choice([0, 0.5, 1])])
    if rng.random() < 0.3:
        # one-shot offsets requested before the first run
        tg = [d['n'] for d in devs if d['k'] in ('P', 'H', 'K')]
        spec['pre_offsets'] = [[rng.choice(tg), rng.choice([0.5, 1, 2.5, -0.25])] for _ in range(rng.choice([1, 2]))]
    return spec


# ----------------------------------------------------------------------------------------- batching

def gen_batching(rng):
    spec = {'devs': [], 'groups': [], 'res': {}, 'actions': []}
    devs = spec['devs']
    ns = rng.choice([1, 1, 2])
    for i in range(ns):
        s = source(rng, f'S{i}', batch_p=0.7)
        if rng.random() < 0.5:
            s['batch'] = rng.choice([[1, 3], [2, 0, 4], [3, 2], [5, 1], 2, 3, [0, 1]])
        devs.append(s)
    prev = [f'S{i}' for i in range(ns)]
    if rng.random() < 0.4:
        devs.append({'k': 'B', 'n': 'B0', 'c': rng.choice([0, 0.5]), 'cap': rng.choice([3, 5, INF]), 'up': prev})
        prev = ['B0']
    if rng.random() < 0.25:
        m = 2
        devs.append({'k': 'G', 'n': 'Ga', 'mod': m, 'neg': False, 'up': list(prev)})
        devs.append({'k': 'G', 'n': 'Gb', 'mod': m, 'neg': True, 'up': list(prev)})
        prev = ['Ga', 'Gb']
    devs.append({'k': 'BA', 'n': 'BA0', 'size': rng.choice([None, 1, 2, 3, 4]), 'up': prev})
    prev = ['BA0']
    r = rng.random()
    if r < 0.35:
        devs.append({'k': 'BA', 'n': 'BA1', 'size': rng.choice([None, 2, 3]), 'up': prev})
        prev = ['BA1']
    elif r < 0.6:
        devs.append({'k': 'BA', 'n': 'BAu', 'size': None, 'up': prev})
        devs.append(proc(rng, spec, 'Pm', ['BAu']))
        devs.append({'k': 'BA', 'n': 'BA2', 'size': rng.choice([2, 3]), 'up': ['Pm']})
        prev = ['BA2']
    if rng.random() < 0.3:
        devs.append({'k': 'G', 'n': 'Gc', 'mod': 2, 'neg': False, 'up': list(prev)})
        devs.append({'k': 'G', 'n': 'Gd', 'mod': 2, 'neg': True, 'up': list(prev)})
        prev = ['Gc', 'Gd']
    if rng.random() < 0.4:
        devs.append({'k': 'B', 'n': 'B1', 'c': rng.choice([0, 1]), 'cap': rng.choice([4, 6, INF]), 'up': prev})
        prev = ['B1']
    cons = []
    for j in range(rng.choice([1, 1, 2])):
        d = proc(rng, spec, f'P{j}', list(prev), [0.5, 1, 2, 3])
        d['alt'] = None
        d['res'] = None
        devs.append(d)
        cons.append(d['n'])
    devs.append({'k': 'K', 'n': 'K0', 'c': rng.choice([0, 0.5, 2]), 'up': cons})
    procs = names_of(spec, 'P')
    acts = []
    for _ in range(rng.choice([0, 2, 4])):
        t = rng.choice(TIMES)
        pr = rng.choice(PRIOS)
        r = rng.random()
        if r < 0.5:
            acts.append([t, pr, 'block', rng.choice(names_of(spec, ('P', 'BA', 'B'))), rng.random() < 0.5])
        elif r < 0.8:
            acts.append([t, pr, 'maint', rng.choice(procs), rng.choice([0.5, 2.75])])
        else:
            acts.append([t, pr, 'adjust', rng.choice(names_of(spec, 'S')), rng.choice([1, 3])])
    spec['actions'] = acts
    return finish(rng, spec, 'batching')


def gen_values(rng):
    """Value-accounting profile: nested batches, value added on receive/finish, work orders with costs
    (also negative: a rebate). No buffers/batchers (they count or unpack only the top level of a nested batch)."""
    spec = {'devs': [], 'groups': [], 'res': {}, 'actions': []}
    devs = spec['devs']
    ns = rng.choice([1, 2])
    for i in range(ns):
        s = source(rng, f'S{i}', batch_p=0.0)
        s['val'] = rng.choice([1, 2.5, 0.5])
        s['batch'] = rng.choice([None, None, 2, [1, 3], {'nest': [2, 1]}, {'nest': [1, 1, 2]}])
        devs.append(s)
    prev = [f'S{i}' for i in range(ns)]
    procs = []
    for st_ in range(rng.choice([1, 2, 3])):
        cur = []
        for w in range(rng.choice([1, 1, 2])):
            nm = f'P{st_}{w}'
            d = proc(rng, spec, nm, list(prev), [0, 0, 0.5, 1, 2])
            d['valadd'] = rng.choice([0, 1, 2.5])
            d['rvaladd'] = rng.choice([0, 0, 0.5, 1])
            d['res'] = None
            d['alt'] = None
            devs.append(d)
            cur.append(nm)
            procs.append(nm)
        prev = cur
    devs.append({'k': 'K', 'n': 'K0', 'c': rng.choice([0, 0.5, 1]), 'up': prev})
    if rng.random() < 0.4:
        devs[-1]['rvaladd'] = rng.choice([0.5, 1, 2.5])      # a callback registered on the sink changes the value
    acts = []
    for _ in range(rng.choice([0, 0, 2, 4])):
        # parts waiting in a source are revalued before they leave
        acts.append([rng.choice(TIMES), rng.choice(PRIOS), 'revalue', rng.choice([f'S{i}' for i in range(ns)]),
                     rng.choice([0.5, 1, -0.25, 3])])
    for _ in range(rng.choice([1, 3, 6])):
        t = rng.choice(TIMES)
        pr = rng.choice(PRIOS)
        r = rng.random()
        if r < 0.6:
            acts.append([t, pr, 'wo', rng.choice(procs)])
        elif r < 0.8:
            acts.append([t, pr, 'fail', rng.choice(procs), 0])
        else:
            acts.append([t, pr, 'restore', rng.choice(procs)])
    spec['actions'] = acts
    # starting values of the machines and of the crew, a second crew / sensors that only carry a value
    for d in devs:
        if d['k'] == 'P' and rng.random() < 0.5:
            d['v0'] = rng.choice([-12.5, 3.25, 100, -0.125])
    if rng.random() < 0.5:
        spec['maint_v0'] = rng.choice([-20, 7.5, 0.25])
    ex = []
    if rng.random() < 0.4:
        ex.append({'k': 'M', 'n': rng.choice(['maint', 'maint', 'crew2']), 'cap': 1, 'v': rng.choice([-7.5, 4, 0.5])})
    for _ in range(rng.choice([0, 0, 1, 2])):
        ex.append({'k': 'PS', 'n': rng.choice(['sens', 'sens', procs[0], 'maint']), 'iv': rng.choice([0.5, 1.5, 4]),
                   'target': rng.choice(procs), 'v': rng.choice([-3.25, -1, 2])})
    if ex:
        spec['extras'] = ex
    if rng.random() < 0.35:
        # amounts off the dyadic grid (thirds, decimals, very small ones): bookings must not be rounded away
        odd = [1 / 3, 0.1, 2.675, 7.3, 1e-7, 0.1234567891, 4e-7]
        for d in devs:
            if d['k'] == 'S':
                d['val'] = rng.choice(odd)
            if d['k'] == 'P':
                if d.get('valadd'):
                    d['valadd'] = rng.choice(odd)
                if d.get('rvaladd'):
                    d['rvaladd'] = rng.choice(odd)
                d['wocost'] = rng.choice(odd + [-1 / 3])
                if 'v0' in d:
                    d['v0'] = rng.choice([-1 / 3, 12.3456789])
        spec['odd_values'] = True
    spec = finish(rng, spec, 'values')
    if rng.random() < 0.35:
        T = sum(spec['T'])
        a = rng.choice([1, 2.5, 4])
        if a < T:
            spec['T'] = [a, T - a]
            spec['between'] = [[0, 'newsink', list(prev), 'KX']] + [b for b in spec.get('between', []) if b[0] == 0]
    return spec


def gen_rework(rng):
    """Documented rework loop: a gate on the part's mutable state (quality, raised by the machine) leads back into an
    earlier buffer with a positive delay (W5); the complementary gate leads on to the sink."""
    spec = {'devs': [], 'groups': [], 'res': {}, 'actions': [], 'loops': []}
    devs = spec['devs']
    devs.append({'k': 'S', 'n': 'S0', 'c': rng.choice([0.5, 1, 2, 3]), 'budget': rng.choice([1, 2, 3, 5, 8]), 'batch': None,
                 'val': 1})
    devs.append({'k': 'B', 'n': 'B0', 'c': rng.choice([0.25, 0.5, 1]), 'cap': INF, 'up': ['S0']})
    nm = rng.choice([1, 1, 2])
    ms = []
    for i in range(nm):
        devs.append({'k': 'P', 'n': f'M{i}', 'c': rng.choice([0.5, 1, 1.5, 2]), 'up': ['B0'], 'res': None, 'alt': None,
                     'wod': 1, 'wocap': 1, 'wocost': 0, 'qadd': 1})
        ms.append(f'M{i}')
    q = rng.choice([2, 3, 3, 4])
    devs.append({'k': 'G', 'n': 'Gok', 'q': q, 'neg': False, 'up': list(ms)})
    devs.append({'k': 'G', 'n': 'Gre', 'q': q, 'neg': True, 'up': list(ms)})
    if rng.random() < 0.5:
        devs.append({'k': 'H', 'n': 'Hout', 'c': rng.choice([0, 1, 2.5]), 'up': ['Gok']})
        devs.append({'k': 'K', 'n': 'K0', 'c': rng.choice([0, 1]), 'up': ['Hout']})
    else:
        devs.append({'k': 'K', 'n': 'K0', 'c': rng.choice([0, 1, 2.5]), 'up': ['Gok']})
    spec['loops'].append(['Gre', 'B0'])
    acts = []
    for _ in range(rng.choice([0, 0, 2, 4])):
        t = rng.choice(TIMES)
        pr = rng.choice(PRIOS)
        r = rng.random()
        if r < 0.4:
            acts.append([t, pr, 'block', rng.choice(ms + ['B0']), rng.random() < 0.5])
        elif r < 0.7:
            acts.append([t, pr, 'maint', rng.choice(ms), rng.choice([0.5, 2.75])])
        else:
            acts.append([t, pr, 'adjust', 'S0', rng.choice([1, 2])])
    spec['actions'] = acts
    spec = finish(rng, spec, 'rework', T=rng.choice([15, 25, 40]))
    return spec


def gen_parallel(rng):
    """Idle-longest profile: source(s) -> one holding device -> 2-4 parallel single-slot devices (handlers,
    processors with pool needs, sinks) whose inputs are blocked/unblocked and which are shut down / failed / restored
    while busy or idle."""
    spec = {'devs': [], 'groups': [], 'res': {'r': rng.choice([1, 2, 3])}, 'actions': []}
    devs = spec['devs']
    G = [0.5, 1, 1, 2, 3, 4.5]
    stuck = rng.random() < 0.5      # slow common sink: the parallel devices get stuck holding a finished part
    if stuck:
        G = [0.5, 0.5, 1, 1.5]
    ns = rng.choice([1, 2])
    for i in range(ns):
        devs.append({'k': 'S', 'n': f'S{i}', 'c': rng.choice(G), 'budget': rng.choice([4, 9, INF]), 'batch': None, 'val': 0})
    srcs = [f'S{i}' for i in range(ns)]
    front = rng.random()
    if front < 0.4:
        devs.append({'k': 'B', 'n': 'U', 'c': 0, 'cap': rng.choice([1, 3, INF]), 'up': srcs})
    elif front < 0.75:
        devs.append({'k': 'H', 'n': 'U', 'c': rng.choice([0, 1]), 'up': srcs})
    else:
        # the parallel stations sit directly behind a group path (the path chooses among them)
        spec['groups'].append({'n': 'G0', 'devs': [{'k': 'H', 'n': 'G0d0', 'c': rng.choice([0, 0.5]), 'up': []}]})
        devs.append({'k': 'GP', 'n': 'U', 'g': 'G0', 'up': srcs})
    par = []
    nonsink = []
    for i in range(rng.choice([2, 3, 4])):
        k = rng.choice('HPPK')
        up_i = ['U']
        if front < 0.75 and rng.random() < 0.3:
            # an always-accepting gate in front of this station (a pass-through branch)
            devs.append({'k': 'G', 'n': f'Gx{i}', 'q': 0, 'neg': False, 'up': ['U']})
            up_i = [f'Gx{i}']
        if k == 'H':
            devs.append({'k': 'H', 'n': f'X{i}', 'c': rng.choice(G), 'up': up_i})
        elif k == 'P':
            devs.append({'k': 'P', 'n': f'X{i}', 'c': rng.choice(G), 'up': up_i, 'res': rng.choice([None, {'r': 1}, {'r': 2}]),
                         'alt': None, 'wod': rng.choice([0.5, 2]), 'wocap': 1, 'wocost': 0})
        else:
            devs.append({'k': 'K', 'n': f'X{i}', 'c': rng.choice([0, 0] + G), 'up': up_i})
        par.append((f'X{i}', k))
        if k != 'K':
            nonsink.append(f'X{i}')
    if nonsink:
        devs.append({'k': 'K', 'n': 'K', 'c': rng.choice([2, 3, 4.5]) if stuck else rng.choice([0, 1, 2]), 'up': nonsink})
    acts = []
    for _ in range(rng.choice([0, 3, 6, 10])):
        t = rng.choice([1, 2, 2.5, 4, 5, 7, 9, 12])
        pr = rng.choice(PRIOS)
        x, k = rng.choice(par)
        r = rng.random()
        if r < 0.5:
            acts.append([t, pr, 'block', x, rng.random() < 0.5])
        elif k == 'P':
            if r < 0.7:
                acts.append([t, pr, 'shutdown', x])
            elif r < 0.85:
                acts.append([t, pr, 'fail', x, 0])
            else:
                acts.append([t, pr, 'restore', x])
    for _ in range(rng.choice([0, 1, 2, 3])):
        # block and shortly afterwards unblock a parallel device (it may be busy or hold a finished part then)
        x, k = rng.choice(par)
        t = rng.choice([1, 2, 3, 4.5, 6, 8])
        acts.append([t, rng.choice(PRIOS), 'block', x, True])
        acts.append([t + rng.choice([0.5, 1, 1.5, 2.5]), rng.choice(PRIOS), 'block', x, False])
    spec['actions'] = acts
    spec = finish(rng, spec, 'parallel', T=rng.choice([10, 20, 40]))
    return spec


PROFILES = {'rework': gen_rework, 'parallel': gen_parallel, 'values': gen_values, 'general': gen_general, 'groups': gen_groups, 'contention': gen_contention, 'buffers': gen_buffers,
            'noise': lambda r: gen_buffers(r, True), 'interrupt': gen_interrupt, 'batching': gen_batching}


def noisy(spec, rng):
    """Turn a dyadic spec into one with ordinary decimal times (1.1, 7.3, ...). Only oracles that hold under any
    rounding may be used on such a model (clock monotone, dispatch order, no crash)."""
    f = rng.choice([1.1, 0.7, 1.3, 0.9])

    def n(x):
        return round(x * f + rng.choice([0, 0.1, 0.2]), 1) if isinstance(x, (int, float)) and x > 0 else x
    for d in all_devs(spec):
        for k in ('c', 'alt', 'wod'):
            if isinstance(d.get(k), (int, float)):
                d[k] = n(d[k])
    for a in spec['actions']:
        a[0] = n(a[0])
        if a[2] in ('fail', 'maint', 'offset') and isinstance(a[4], (int, float)):
            a[4] = n(a[4]) if a[2] != 'offset' else a[4]
    spec['T'] = [n(t) for t in spec['T']]
    spec['profile'] = spec['profile'] + '-noisy'
    spec.pop('trace', None)
    return spec


def specs(mix, trace_p=0.0, noisy_p=0.0):
    """mix: list of (profile, weight). Strategy producing JSON specs."""
    names = [n for n, w in mix for _ in range(w)]

    def build(rng, which):
        spec = PROFILES[which](rng)
        if trace_p and rng.random() < trace_p:
            spec['trace'] = True
            if len(spec['T']) > 1 and rng.random() < 0.5:
                fl = [rng.random() < 0.5 for _ in spec['T']]
                if not any(fl):
                    fl[0] = True
                spec['trace'] = fl
        if noisy_p and rng.random() < noisy_p:
            spec = noisy(spec, rng)
        return spec
    return st.builds(build, st.randoms(use_true_random=False), st.sampled_from(names))


def well_posed(spec):
    """W1-W9 check used by the minimiser so that shrunk replays stay inside the documented input domain."""
    try:
        if len(spec['tb']) != 2 or spec['tb'][0] not in TB:
            return False
        if not spec['T'] or any((not isinstance(t, (int, float))) or t <= 0 for t in spec['T']):
            return False
        seen = set()
        devs = all_devs(spec)
        order = [d for g in spec['groups'] for d in g['devs']] + list(spec['devs'])
        gnames = {g['n'] for g in spec['groups']}
        for g in spec['groups']:
            if not g['devs']:
                return False
        for d in order:
            if d['n'] in seen:
                return False
            k = d['k']
            if k == 'S':
                if d['budget'] == INF and not d['c'] > 0:
                    return False
                if d['c'] < 0:
                    return False
            else:
                ups = d.get('up')
                in_group = any(d in g['devs'] for g in spec['groups'])
                if not in_group and not ups:
                    return False
                for u in ups or []:
                    if u not in seen:
                        return False
                if len(set(ups or [])) != len(ups or []):
                    return False
            if k in ('H', 'P', 'K', 'B') and d['c'] < 0:
                return False
            if k == 'B' and d.get('cap') != INF and d.get('cap', 1) < 1:
                return False
            if k == 'BA' and d['size'] is not None and d['size'] < 1:
                return False
            if k == 'GP' and d['g'] not in gnames:
                return False
            if k == 'P':
                if d.get('res') is not None and any(v < 0 for v in d['res'].values()):
                    return False
                if d.get('wod', 0) < 0 or d.get('wocap', 0) < 0 or (d.get('alt') is not None and d['alt'] < 0):
                    return False
            seen.add(d['n'])
        gates = [d for d in devs if d['k'] == 'G']
        for g in gates:
            twin = [h for h in gates if h is not g and h.get('mod') == g.get('mod') and h.get('q') == g.get('q')
                    and h['neg'] != g['neg'] and sorted(h['up']) == sorted(g['up'])]
            if 'q' in g and g['q'] == 0 and not g['neg']:
                continue                     # an always-accepting gate needs no complement
            if ('q' not in g and g['mod'] < 2) or not twin:
                return False
            if 'q' in g:
                continue
            # both gates of a pair feed the same devices
            fed_g = sorted(d['n'] for d in devs if g['n'] in d.get('up', []))
            if not any(sorted(d['n'] for d in devs if h['n'] in d.get('up', [])) == fed_g for h in twin):
                return False
        if not any(d['k'] == 'K' for d in devs) or not any(d['k'] == 'S' for d in devs):
            return False
        for v in spec['res'].values():
            if v < 0:
                return False
        names = seen | gnames
        for (frm, to) in spec.get('loops', []):
            if frm not in names or to not in names:
                return False
            bd = [d for d in devs if d['n'] == to]
            if not bd or bd[0]['k'] != 'B' or not bd[0]['c'] > 0:
                return False
        for b in spec.get('between', []):
            if not (0 <= b[0] < len(spec['T']) - 1):
                return False
            if b[1] == 'addres':
                if b[2] not in spec['res']:
                    return False
            elif b[1] in ('newsink', 'newline'):
                if not b[2] or any(u not in names for u in b[2]):
                    return False
            elif b[1] == 'newsource':
                if not b[2] > 0 or not b[3] >= 1:
                    return False
            elif b[2] not in names or (b[1] == 'rewire_add' and b[3] not in names):
                return False
        for (nm_, v_) in spec.get('pre_offsets', []):
            if nm_ not in names:
                return False
        for a in spec['actions']:
            if a[0] < 0 or a[1] <= 1:
                return False
            if a[2] in ('fail', 'maint') and a[4] < 0:
                return False
            if a[2] == 'addres':
                if a[3] not in spec['res']:
                    return False
            elif a[3] not in names:
                return False
        return True
    except Exception:
        return False
