"""E9: reproducibility, split runs, parallel runs (C14).

case = {"model": E3-style spec (picklable pieces only), "seed": n, "mode": "seed"|"split"|"multi",
        "split": [a, b, ...], "id_offset": k, "max_processes": m|None, "n": number_of_simulations}

Everything the model computes depends only on immutable part attributes (the index in the part's name), never on
an asset id (DESIGN 4 C14)."""
import random
from functools import partial

from simprocesd.model import System, EventType
from simprocesd.model.factory_floor import (Part, Batch, Source, Sink, PartHandler, PartProcessor, Buffer, PartBatcher,
                                             DecisionGate, Group, Maintainer, Asset, PartFlowController)
from simprocesd.model.sensors import OutputPartSensor, PeriodicSensor, AttributeProbe
from simprocesd.utils import geometric_distribution_sample
import simprocesd.model.simulation as simmod

from vlib.runner import Violation
from vlib.weights import Weights
from engines.lf_model import (Gen, WP, toggle_cycle, add_value_cb, recv_value_cb, gate_pred, quality_pred, add_quality_cb,
                              Pallet, num, leaves, holdings, INF)

ID_LABELS = ('received_part', 'produced_part', 'supplied_new_part', 'device_failure')


class Holder:
    def __init__(self):
        self.wo_started = []
        self.wo_ended = []


# --------------------------------------------------------------------------- picklable user callbacks
def rand_quality(machine, part):
    part.quality = round(random.random(), 6)
    if machine.fail_p and random.random() < 0.3:
        n = geometric_distribution_sample(machine.fail_p, 1)
        machine.schedule_failure(machine.env.now + min(n, 4000) * 0.125, 'random failure')


def restore_later(machine, is_failure, part):
    if is_failure:
        machine.env.schedule_event(machine.env.now + 1.5, -1, machine.restore_functionality, EventType.RESTORE)


def do_action(kind, a, b, rm, maint, env):
    if kind == 'fail':
        a.schedule_failure(env.now + b, 'generated failure')
    elif kind == 'shutdown':
        a.shutdown()
    elif kind == 'restore':
        a.restore_functionality()
    elif kind == 'maint':
        a.shutdown()
        env.schedule_event(env.now + b, -1, a.restore_functionality, EventType.RESTORE)
    elif kind == 'wo':
        maint.create_work_order(a)
    elif kind == 'block':
        a.block_input = b
    elif kind == 'addres':
        if rm.get_resource_capacity(a) + b >= 0:
            rm.add_resources(a, b)
    elif kind == 'adjust':
        a.adjust_part_count(b)
    elif kind == 'offset':
        a.offset_next_cycle_time(b)


def build(system, spec):
    env = system.env
    rm = system.resource_manager
    D = {}
    generated = []
    holder = Holder()
    for r, c in spec.get('res', {}).items():
        rm.add_resources(r, c)
    mc = spec.get('maint', 2)
    maint = Maintainer('maint', capacity=num(mc) if mc is not None else 2)
    sensors = []
    nproc = [0]

    def nm(d):
        # default names ("Source_<id>") when the spec asks for them: the name then depends on the id counter
        return None if (spec.get('defnames') and d['k'] in ('S', 'P', 'H', 'B', 'K')) else d['n']

    def mk(d):
        k = d['k']
        up = [D[u] for u in d.get('up', [])]
        if k == 'S':
            o = Source(nm(d), Gen(d['n'] + 'p', d.get('val', 0), d.get('batch'), generated,
                                   Pallet if d.get('pallet') else None), d['c'], num(d['budget']))
        elif k == 'P':
            o = WP(nm(d), up, d['c'], resources_for_processing=d.get('res'))
            o.model = holder
            o.wo_dur, o.wo_cap, o.wo_cost = d.get('wod', 1.5), d.get('wocap', 1), d.get('wocost', 2)
            if d.get('alt') is not None:
                o.base_cycle, o.alt_cycle = d['c'], d['alt']
                o.add_receive_part_callback(toggle_cycle)
            if d.get('valadd'):
                o.valadd = d['valadd']
                o.add_finish_processing_callback(add_value_cb)
            if d.get('qadd'):
                o.qadd = d['qadd']
                o.add_finish_processing_callback(add_quality_cb)
            o.fail_p = [0, 0.2, 0.0005][nproc[0] % 3]
            o.add_finish_processing_callback(rand_quality)
            o.add_shutdown_callback(restore_later)
            sensors.append(OutputPartSensor(o, [AttributeProbe('quality', None), AttributeProbe('name', None)],
                                            1 + nproc[0] % 2, 'os_' + d['n'], data_capacity=5))
            nproc[0] += 1
        elif k == 'H':
            o = PartHandler(nm(d), up, d['c'])
            if d.get('alt') is not None:
                o.base_cycle, o.alt_cycle = d['c'], d['alt']
                o.add_receive_part_callback(toggle_cycle)
        elif k == 'B':
            cap = num(d.get('cap', 'inf'))
            o = Buffer(nm(d), up, d['c'], None if cap == INF else cap)
        elif k == 'BA':
            o = PartBatcher(d['n'], up, output_batch_size=d['size'])
        elif k == 'G':
            if 'q' in d:
                o = DecisionGate(d['n'], up, partial(quality_pred, q=d['q'], neg=d['neg']))
            else:
                o = DecisionGate(d['n'], up, partial(gate_pred, m=d['mod'], neg=d['neg']))
        elif k == 'GP':
            o = D[d['g']].get_new_group_path(d['n'], up)
        elif k == 'K':
            o = Sink(nm(d), up, d['c'], collect_parts=True)
        D[d['n']] = o

    for g in spec.get('groups', []):
        for d in g['devs']:
            mk(d)
        kw = {}
        if g.get('in'):
            kw['input_override'] = [D[x] for x in g['in']]
        if g.get('out'):
            kw['output_override'] = [D[x] for x in g['out']]
        D[g['n']] = Group(g['n'], [D[n_] for n_ in (g.get('listed') or [d['n'] for d in g['devs']])], **kw)
    for d in spec['devs']:
        mk(d)
    for (frm, to) in spec.get('loops', []):
        D[to].set_upstream(D[to].upstream + [D[frm]])
    sinks = [o for o in D.values() if isinstance(o, Sink)]
    sensors.append(PeriodicSensor(1.25, [AttributeProbe('received_parts_count', sinks[0])], 'ps', data_capacity=6))
    for a in spec.get('actions', []):
        t, prio, kind = a[0], a[1], a[2]
        if kind in ('rewire_add', 'newline', 'newsink', 'newsource', 'revalue'):
            continue            # actions of the E3 models that create assets or need the monitor: not part of these models
        x = D[a[3]] if kind != 'addres' else a[3]
        y = a[4] if len(a) > 4 else None
        if kind == 'wo':
            y = None
        # events that belong to no asset carry the id -1 (the id the library itself uses for such events)
        env.schedule_event(t, -1, partial(do_action, kind, x, y, rm, maint, env), prio, f'action {kind}')
    system.verif = {'D': D, 'generated': generated, 'maint': maint, 'sensors': sensors}
    return system


PLANT_SETTING = [0]      # a module-level model parameter: the model reads it when it is built


def simulation(system, index, spec, durations, seed=0):
    """The function handed to System.simulate_multiple_times (module level: picklable)."""
    random.seed(seed * 1000 + index)
    build(system, spec)
    system.env.add_datapoint('run_index', 'index', index)
    system.env.add_datapoint('plant_setting', 'value', PLANT_SETTING[0])
    for d in durations:
        system.simulate(d, print_summary=False)


# ----------------------------------------------------------------------------------- normalisation
def normalise(system):
    sd = system.simulation_data
    out = {}
    v = system.verif
    # devices with default names are called by their role in the model
    ren = {o.name: role for role, o in v['D'].items() if isinstance(getattr(o, 'name', None), str)}

    import re as _re
    defaults = {a: r for a, r in ren.items() if a != r}
    pat = _re.compile(r'\b(' + '|'.join(_re.escape(a) for a in sorted(defaults, key=len, reverse=True)) + r')\b') \
        if defaults else None

    def rn(x):
        # also inside labels such as "work order - tag:None target:WP_40"
        if not isinstance(x, str):
            return x
        return pat.sub(lambda m: defaults[m.group(1)], x) if pat is not None else x
    seen = []
    for lab in ID_LABELS:
        for nm, recs in sd.get(lab, {}).items():
            for i, r in enumerate(recs):
                if r[1] is not None:
                    seen.append((r[0], lab, rn(nm), i, r[1]))
    rank = {}
    for (_, _, _, _, pid) in sorted(seen, key=lambda x: x[:4]):
        rank.setdefault(pid, len(rank))
    for lab, d in sd.items():
        for nm, recs in d.items():
            if lab in ID_LABELS:
                out[f'{lab}/{rn(nm)}'] = [(r[0], rank.get(r[1])) + tuple(rn(x) for x in r[2:]) for r in recs]
            else:
                out[f'{lab}/{rn(nm)}'] = [tuple(rn(x) for x in r) if isinstance(r, tuple) else r for r in recs]
    for name, o in v['D'].items():
        if not isinstance(o, PartFlowController):
            continue
        st = {'value': o.value, 'history': [tuple(rn(x) for x in h) for h in o.value_history]}
        if isinstance(o, Sink):
            st['count'] = o.received_parts_count
            st['collected'] = [p.name for cp in o.collected_parts for p in leaves(cp)]
        else:
            st['holds'] = [p.name for p in holdings(o)]
        if isinstance(o, Source):
            st['produced'] = o.produced_parts
        if isinstance(o, PartProcessor):
            st['uptime'], st['util'], st['up'] = o.uptime, o.utilization_time, o.is_operational()
        out['state/' + name] = st
    out['state/maint'] = {'value': v['maint'].value, 'history': [tuple(rn(x) for x in h) for h in v['maint'].value_history],
                          'available': v['maint'].available_capacity}
    import re

    def dn(x):      # default names carry the asset id ("Batch_<id>"): the documented id-dependent part
        return re.sub(r'^(Batch|Part)_\d+$', r'\1_#', x) if isinstance(x, str) else x
    for s_ in v['sensors']:
        out['sensor/' + s_.name] = [[dn(y) for y in x] for k, x in s_.data.items() if k != 'time'] \
            + [list(s_.data.get('time', []))]
    rm = system.resource_manager
    out['pools'] = {r: (rm.get_resource_usage(r), rm.get_resource_capacity(r)) for r in sorted(rm._resources)}
    out['now'] = system.env.now

    def aname(a):
        return getattr(a, '__name__', None) or getattr(getattr(a, 'func', None), '__name__', None) or type(a).__name__
    # the final state includes what is still scheduled (ids left out: they are the documented id-dependent part)
    out['queue'] = sorted((e.time, float(e.event_type), aname(e.action)) for e in system.env._events if not e.cancelled)
    out['paused'] = sorted((e.time, float(e.event_type), aname(e.action)) for e in system.env._paused_events
                           if not e.cancelled)
    out['net'] = system.get_net_value_of_assets()
    return out


def diff(a, b):
    for k in sorted(set(a) | set(b)):
        if a.get(k) != b.get(k):
            return f'{k}: {str(a.get(k))[:140]} | {str(b.get(k))[:140]}'
    return None


# ------------------------------------------------------------------------------------- relations
def run_seeded(spec, durations, seed, index=0, id_offset=0, id_base=None):
    if id_base is not None:
        Asset._id_counter = id_base       # as if exactly that many assets had been created before in this process
    Asset._id_counter += id_offset
    s = System()
    simulation(s, index, spec, durations, seed)
    return normalise(s)


def run_weighted(spec, durations, tb, cb_seed):
    """Tie-break weights from a Weights object; the draw consumed by each TERMINATE event is neutralised so that
    'the tie-break choices are held fixed' between a single and a split run."""
    w = Weights(*tb)
    saved = simmod.random
    simmod.random = w
    try:
        random.seed(cb_seed)
        s = System()
        env = s.env
        orig = env.schedule_event

        def sched(time, asset_id, action, event_type=EventType.OTHER_LOW_PRIORITY, message=''):
            if event_type == EventType.TERMINATE:
                st = (w.n, w.r.getstate())
                orig(time, asset_id, action, event_type, message)
                w.n = st[0]
                w.r.setstate(st[1])
            else:
                orig(time, asset_id, action, event_type, message)
        env.schedule_event = sched
        build(s, spec)
        for d in durations:
            s.simulate(d, print_summary=False)
        del env.schedule_event
        return normalise(s)
    finally:
        simmod.random = saved


def check(case):
    spec = case['model']
    T = sum(spec['T'])
    seed = case['seed']
    mode = case['mode']
    info = {'tie_sensitive': False, 'mode': mode}
    if mode == 'seed':
        A = run_seeded(spec, [T], seed)
        B = run_seeded(spec, [T], seed, id_offset=case.get('id_offset', 0), id_base=case.get('id_base'))
        d = diff(A, B)
        if d:
            raise Violation('C14.same-seed', f'two runs with the same seed (second one after {case.get("id_offset", 0)} '
                            f'extra asset ids) differ: {d}')
        C = run_seeded(spec, [T], seed + 1)
        info['tie_sensitive'] = diff(A, C) is not None
        info['records'] = sum(len(v) for k, v in A.items() if '/' in k and isinstance(v, list))
    elif mode == 'split':
        parts = [min(x, T) for x in case['split']]
        done = 0
        durs = []
        for p in parts:
            if done + p < T:
                durs.append(p)
                done += p
        durs.append(T - done)
        A = run_weighted(spec, [T], spec['tb'], seed)
        B = run_weighted(spec, durs, spec['tb'], seed)
        d = diff(A, B)
        if d:
            raise Violation('C14.split', f'simulate({durs}) differs from simulate([{T}]) with the tie-break choices held '
                            f'fixed: {d}')
        other = ['lifo' if spec['tb'][0] != 'lifo' else 'fifo', 1]
        C = run_weighted(spec, [T], other, seed)
        info['tie_sensitive'] = diff(A, C) is not None
        info['records'] = sum(len(v) for k, v in A.items() if '/' in k and isinstance(v, list))
        info['split_parts'] = len(durs)
    else:
        n = case['n']
        mp = case['max_processes']
        # an earlier batch of runs with the same max_processes, then the model parameter changes: what the workers see must
        # be what the calling process sees at the time of the call
        PLANT_SETTING[0] = 0
        System.simulate_multiple_times(simulation, 1, mp, {'devs': spec['devs'][:0] + spec['devs'], 'groups': spec.get('groups', []),
                                                          'res': spec.get('res', {}), 'actions': [], 'maint': spec.get('maint', 2)},
                                       [0.5], seed=seed)
        PLANT_SETTING[0] = 1 + seed % 5
        # extra arguments by position for one call and by keyword for the other (the seed has a default)
        inproc = System.simulate_multiple_times(simulation, n, 0, spec, [T], seed=seed)
        multi = System.simulate_multiple_times(simulation, n, mp, spec, [T], seed)
        for name, res in (('in-process', inproc), (f'max_processes={mp}', multi)):
            if len(res) != n:
                raise Violation('C14.multi-count', f'simulate_multiple_times({n}) {name} returned {len(res)} systems')
            for i, s in enumerate(res):
                idx = s.simulation_data.get('run_index', {}).get('index')
                if idx != [i]:
                    raise Violation('C14.multi-order', f'{name}: system at position {i} ran with index {idx}')
        for i in range(n):
            a, b = normalise(inproc[i]), normalise(multi[i])
            d = diff(a, b)
            if d:
                raise Violation('C14.multi-equal', f'run index {i}: in-process result differs from max_processes={mp}: {d}')
            ref = run_seeded(spec, [T], seed, index=i)
            ref.pop('run_index/index', None)
            ref.pop('plant_setting/value', None)
            a.pop('plant_setting/value', None)
            a2 = dict(a)
            a2.pop('run_index/index', None)
            d = diff(a2, ref)
            if d:
                raise Violation('C14.multi-equal', f'run index {i} of simulate_multiple_times differs from a direct run '
                                f'of the same function with that index: {d}')
        info['records'] = sum(len(v) for k, v in normalise(inproc[0]).items() if '/' in k and isinstance(v, list))
        info['tie_sensitive'] = diff(normalise(inproc[0]), normalise(inproc[-1])) is not None if n > 1 else False
        PLANT_SETTING[0] = 0
    return info


# ------------------------------------------------------------------ hash-seed independence (sub-processes)
def digest_of(case):
    import hashlib
    import json
    spec = case['model']
    PLANT_SETTING[0] = 0
    A = run_seeded(spec, [sum(spec['T'])], case['seed'])
    return hashlib.sha1(json.dumps(A, sort_keys=True, default=repr).encode()).hexdigest()


def check_hashseed(case):
    """The same seeded run in fresh interpreters with other PYTHONHASHSEED values gives the same normalised data."""
    import json
    import os
    import subprocess
    import sys
    import tempfile
    here = digest_of(case)
    fd, path = tempfile.mkstemp(suffix='.json', prefix='verif-c14-')
    os.close(fd)
    try:
        with open(path, 'w') as f:
            json.dump(case, f)
        for hs in case.get('hash_seeds', ['1', '4242']):
            env = dict(os.environ)
            env['PYTHONHASHSEED'] = hs
            out = subprocess.run([sys.executable, '-B', '-m', 'engines.repro', path], env=env, cwd=os.path.dirname(
                os.path.dirname(os.path.abspath(__file__))), stdout=subprocess.PIPE, stderr=subprocess.PIPE, text=True,
                timeout=600)
            got = out.stdout.strip().splitlines()[-1] if out.stdout.strip() else ''
            if out.returncode != 0 or len(got) != 40:
                raise RuntimeError(f'hash-seed sub-process failed: rc={out.returncode} {out.stderr[-400:]}')
            if got != here:
                raise Violation('C14.hash-seed', f'the same seeded run gives different recorded data / final state under '
                                f'PYTHONHASHSEED={hs} than under PYTHONHASHSEED={os.environ.get("PYTHONHASHSEED")}')
    finally:
        os.unlink(path)
    return {'mode': 'hash', 'tie_sensitive': True, 'records': 30}


if __name__ == '__main__':
    import contextlib
    import io
    import json
    import sys
    with open(sys.argv[1]) as f:
        c = json.load(f)
    buf = io.StringIO()
    with contextlib.redirect_stdout(buf):
        d = digest_of(c)
    print(d)
