"""E2: operation sequences on the real ResourceManager/ReservedResources (with a real Environment).

Pool part (C09)   ops: ["add",name,amount] | ["reserve",{name:amount}] | ["release",i,{...}|null] | ["merge",i,j]
Waiting part (C10) ops: ["add",name,amount] | ["reserve",{...}] | ["release",i] | ["register",{...},behaviour]
                        | ["advance",d]
                   behaviour = ["none"] | ["same"] | ["other",{...}] | ["release",i] | ["more",{...},behaviour]
                             | ["add",name,amount]
"""
from simprocesd.model import Environment, ResourceManager

from vlib.runner import PROGRESS, Violation
from vlib.weights import Weights, installed

NAMES = ['a', 'b', 'c', 'new', 'zzz']


def norm(d):
    return {k: v for k, v in d.items() if v != 0}


# ====================================================================================== C09 pools

class Pools:
    def __init__(self, initialise=True):
        self.env = Environment()
        self.rm = ResourceManager()
        self.env.resource_manager = self.rm
        if initialise:
            self.rm.initialize(self.env)
        self.cap = {}
        self.use = {}
        self.res = []      # real ReservedResources
        self.hold = []     # model holdings
        self.approx = False
        self.watched = []  # (dict handed to reserve_resources, its content then, reservation index)
        self.c = {'ops': 0, 'raised': 0, 'reserve_ok': 0, 'reserve_refused': 0, 'multi_failed_after_success': 0,
                  'over_capacity_states': 0, 'merges': 0, 'partial_releases': 0, 'invalid_rejected': 0}

    def snapshot(self):
        rm = self.rm
        hold = []
        for r in self.res:
            got = r.reserved_resources
            keep = dict(got)
            # what the accessor hands out is the caller's to edit: the reservation itself must not change
            got['__edited_by_caller'] = 1
            got.clear()
            again = r.reserved_resources
            if again != keep:
                raise Violation('C09.holding', f'editing the dictionary returned by reserved_resources changed the '
                                f'reservation from {keep} to {again}')
            hold.append(norm(keep))
        return ({n: (rm.get_resource_usage(n), rm.get_resource_capacity(n)) for n in NAMES}, hold)

    def step(self, op):
        rm = self.rm
        PROGRESS[0] += 1
        self.c['ops'] += 1
        k = op[0]
        if k == 'release' and not self.res:
            return
        if k == 'merge' and (len(self.res) < 2 or op[1] % len(self.res) == op[2] % len(self.res)):
            return
        before = self.snapshot()
        raised = None
        ret = None
        try:
            if k == 'add':
                rm.add_resources(op[1], op[2])
            elif k == 'reserve':
                passed = dict(op[1])
                ret = rm.reserve_resources(passed)
            elif k == 'release':
                self.res[op[1] % len(self.res)].release(None if op[2] is None else dict(op[2]))
            elif k == 'merge':
                self.res[op[1] % len(self.res)].merge(self.res[op[2] % len(self.res)])
            elif k == 'reinit':
                # the same manager is handed to another System / Environment and initialised again while
                # reservations are outstanding: nothing about the pools changes
                env2 = Environment(resource_manager=rm)
                rm.initialize(env2)
                self.env = env2
            else:
                raise ValueError(op)
        except Exception as e:   # which exception is raised is not checked
            if type(e) is ValueError and e.args and e.args[0] is op:
                raise
            raised = e
        after = self.snapshot()
        if raised is not None:
            self.c['raised'] += 1
            if after != before:
                raise Violation('C09.raised-unchanged', f'{op} raised {raised!r} but changed the pools: '
                                f'{before} -> {after}')
        # ---- what the statement allows
        if k == 'add':
            n, v = op[1], op[2]
            invalid = self.cap.get(n, 0) + v < 0
            if invalid:
                if raised is None:
                    raise Violation('C09.capacity-negative', f'{op} accepted with capacity {self.cap.get(n, 0)}: '
                                    f'capacity is now {rm.get_resource_capacity(n)}')
                self.c['invalid_rejected'] += 1
            else:
                if raised is not None:
                    raise Violation('C09.rejected-valid', f'{op} raised {raised!r} although capacity stays >= 0')
                if v != 0:
                    self.cap[n] = self.cap.get(n, 0) + v
                    self.use.setdefault(n, 0)
        elif k == 'reserve':
            req = op[1]
            if any(v < 0 for v in req.values()):
                # documented invalid input: must be rejected (raise or None) and take nothing
                if raised is None and ret is not None:
                    raise Violation('C09.negative-granted', f'{op} was granted: {ret.reserved_resources}')
                if after != before:
                    raise Violation('C09.atomic', f'{op} rejected but pools changed: {before} -> {after}')
                self.c['invalid_rejected'] += 1
                if any(v > 0 for v in req.values()) and self.res:
                    self.c['multi_failed_after_success'] += 1
            else:
                pos = norm(req)
                fits = all(n in self.cap and self.cap[n] - self.use[n] >= v for n, v in pos.items())
                if raised is not None:
                    raise Violation('C09.rejected-valid', f'{op} raised {raised!r}')
                if fits:
                    if ret is None:
                        raise Violation('C09.fit-refused', f'{op} refused although every amount fits '
                                        f'(capacity {self.cap}, usage {self.use})')
                    for n, v in pos.items():
                        self.use[n] += v
                    self.res.append(ret)
                    self.hold.append(dict(pos))
                    self.c['reserve_ok'] += 1
                    # the dictionary handed to reserve_resources stays the caller's: every second one is edited
                    # right away (the reservation must not follow), the others are watched (the library must not
                    # change them later, e.g. when the reservation is released)
                    if passed != op[1]:
                        raise Violation('C09.caller-dict', f'{op}: the request dictionary was changed to {passed}')
                    if self.c['reserve_ok'] % 2:
                        passed['__edited_by_caller'] = 7
                        for n in list(passed):
                            passed[n] = 99
                        passed.clear()
                    else:
                        self.watched.append((passed, dict(passed), len(self.res) - 1))
                else:
                    if ret is not None:
                        raise Violation('C09.unfit-granted', f'{op} granted although it does not fit '
                                        f'(capacity {self.cap}, usage {self.use})')
                    if after != before:
                        raise Violation('C09.atomic', f'{op} refused but pools changed: {before} -> {after}')
                    self.c['reserve_refused'] += 1
                    if len(pos) > 1 and self.res:
                        self.c['multi_failed_after_success'] += 1
        elif k == 'release':
            i = op[1] % len(self.res)
            m = self.hold[i]
            what = op[2]
            if what is None:
                what = dict(m)
                full = True
            else:
                full = False
            neg = any(v < 0 for v in what.values())
            too_much = any(v > m.get(n, 0) for n, v in what.items())
            unheld_zero = any(n not in m and v == 0 for n, v in what.items())
            if neg or too_much:
                if raised is None:
                    raise Violation('C09.invalid-release-accepted', f'{op} accepted; reservation held {m}')
                self.c['invalid_rejected'] += 1
            elif raised is not None:
                if not unheld_zero:
                    raise Violation('C09.rejected-valid', f'{op} raised {raised!r}; reservation held {m}')
                # releasing 0 of a resource that is not held may be rejected; then nothing changed (checked above)
            else:
                for n, v in what.items():
                    if v > 0:
                        m[n] -= v
                        self.use[n] -= v
                        if m[n] == 0:
                            del m[n]
                if not full and any(v > 0 for v in what.values()):
                    self.c['partial_releases'] += 1
        elif k == 'merge':
            i, j = op[1] % len(self.res), op[2] % len(self.res)
            if raised is not None:
                raise Violation('C09.rejected-valid', f'{op} raised {raised!r}')
            for n, v in self.hold[j].items():
                self.hold[i][n] = self.hold[i].get(n, 0) + v
            self.hold[j].clear()
            self.c['merges'] += 1
        # ---- compare every observable with the model
        for n in NAMES:
            u, c_ = rm.get_resource_usage(n), rm.get_resource_capacity(n)
            mu, mc = self.use.get(n, 0), self.cap.get(n, 0)
            if u < (-1e-9 if self.approx else 0):
                raise Violation('C09.usage-negative', f'after {op}: usage of {n} is {u}')
            if c_ < 0:
                raise Violation('C09.capacity-negative', f'after {op}: capacity of {n} is {c_}')
            held = sum(norm(r.reserved_resources).get(n, 0) for r in self.res)
            # decimal amounts: the two sums are formed in different orders, so they may differ by rounding
            if (abs(u - held) > 1e-9) if self.approx else (u != held):
                raise Violation('C09.usage-vs-holdings', f'after {op}: usage of {n} is {u} but outstanding '
                                f'reservations hold {held}')
            if (u, c_) != (mu, mc):
                raise Violation('C09.model', f'after {op}: {n} usage/capacity {(u, c_)}, reference model {(mu, mc)}')
            if mu > mc:
                self.c['over_capacity_states'] += 1
        for idx, (r, m) in enumerate(zip(self.res, self.hold)):
            if norm(r.reserved_resources) != m:
                raise Violation('C09.holding', f'after {op}: reservation {idx} holds {r.reserved_resources}, '
                                f'reference model {m}')
        for obj, was, idx in self.watched:
            if obj != was:
                raise Violation('C09.caller-dict', f'after {op}: the dictionary {was} that was handed to reserve_resources '
                                f'for reservation {idx} now reads {obj}')


def run_pools(case):
    pre = case.get('before_start') or []
    p = Pools(initialise=not pre)
    p.approx = bool(case.get('decimal'))
    with installed(Weights('const')):
        # the model is set up before the simulation starts: pools are declared then, and a request made then is
        # answered (only requests that take nothing are issued: a request that does not fit, or asks for nothing)
        for op in pre:
            if op[0] == 'add':
                p.step(op)
            elif op[0] == 'reserve' and all(v >= 0 for v in op[1].values()):
                pos = norm(op[1])
                fits = all(n in p.cap and p.cap[n] - p.use[n] >= v for n, v in pos.items())
                if not pos or not fits:
                    p.step(op)
        if pre:
            p.rm.initialize(p.env)
        for op in case['ops']:
            p.step(op)
    return p


# ============================================================================== C10 waiting requests

CONSUME_ONLY = ('none', 'same', 'twice', 'other', 'more')


def order_fixed(beh):
    """True if the behaviour (recursively) only consumes or registers."""
    if beh[0] == 'more':
        return order_fixed(beh[2])
    return beh[0] in CONSUME_ONLY


class PureWaiters:
    """Reference model: waiting list + queue of pending availability checks (one in-order pass each)."""

    def __init__(self):
        self.cap, self.use, self.res, self.wait = {}, {}, [], []
        self.pending = 0
        self.wid = 0
        self.now = 0
        self.log = []

    def fits(self, req):
        return all(v == 0 or (n in self.cap and self.cap[n] - self.use[n] >= v) for n, v in req.items())

    def add(self, n, v):
        if self.cap.get(n, 0) + v < 0 or v == 0:
            return
        if n in self.cap:
            self.cap[n] += v
        else:
            self.cap[n] = v
            self.use[n] = 0
        self.pending += 1

    def reserve(self, req):
        pos = norm(req)
        if self.fits(pos):
            for n, v in pos.items():
                self.use[n] += v
            self.res.append(dict(pos))

    def release(self, i, part=None):
        if not self.res:
            return
        m = self.res[i % len(self.res)]
        if part and len(m) >= 2:
            # an explicit dictionary: everything of the first resource held, nothing (0) of the others
            first = next(iter(m))
            self.use[first] -= m[first]
            del m[first]
        else:
            for n, v in m.items():
                self.use[n] -= v
            m.clear()
        self.pending += 1

    def register(self, req, beh, mutate=False, twice=False):
        for _ in range(2 if twice else 1):
            self.wid += 1
            self.wait.append((dict(req), beh, self.wid))
            self.pending += 1

    def behave(self, b, req):
        k = b[0]
        if k == 'same':
            self.reserve(req)
        elif k == 'twice':
            # "take as many sets as fit": the request it was handed, reserved twice
            self.reserve(req)
            self.reserve(req)
        elif k == 'other':
            self.reserve(b[1])
        elif k == 'release':
            self.release(b[1])
        elif k == 'more':
            self.register(b[1], b[2])
        elif k == 'add':
            self.add(b[1], b[2])

    def reinit(self):
        pass        # nothing about the waiting list changes when the manager moves to another environment

    def advance(self, d):
        while self.pending > 0:
            self.pending -= 1
            i = 0
            while i < len(self.wait):
                req, b, wid = self.wait[i]
                if self.fits(req):
                    self.log.append((self.now, wid))
                    self.wait.pop(i)
                    self.behave(b, req)
                else:
                    i += 1
        self.now += d


class _Job:
    def __init__(self, f):
        self.f = f

    def run(self, rm, request):
        self.f(rm, request)


class RealWaiters:
    def __init__(self, tb):
        self.tb = tb
        self.env = Environment()
        self.rm = ResourceManager()
        self.env.resource_manager = self.rm
        self.rm.initialize(self.env)
        self.res = []
        self.wid = 0
        self.log = []
        self.waiting = {}     # wid -> (request, consume_only)
        self.calls = {}
        self.all_order_fixed = True
        self.c = {'callbacks': 0, 'reserved_in_callback': 0, 'registered': 0, 'from_inside': 0}
        self.depth = 0

    def fits_public(self, req):
        rm = self.rm
        return all(v == 0 or rm.get_resource_capacity(n) - rm.get_resource_usage(n) >= v for n, v in req.items())

    def add(self, n, v):
        if self.rm.get_resource_capacity(n) + v < 0:
            return
        self.rm.add_resources(n, v)

    pool_oracles = False

    def reserve(self, req):
        fit = self.fits_public(req)
        r = self.rm.reserve_resources(req)
        if self.pool_oracles and all(v >= 0 for v in req.values()):
            where = 'inside a callback' if self.depth else 'outside callbacks'
            if r is not None and not fit:
                raise Violation('C09.unfit-granted', f'reserve_resources({req}) {where} at {self.env.now} was granted although '
                                f'it did not fit into capacity minus usage')
            if r is None and fit:
                raise Violation('C09.fit-refused', f'reserve_resources({req}) {where} at {self.env.now} was refused although '
                                f'every amount fits')
        if r is not None:
            self.res.append(r)
            if self.depth:
                self.c['reserved_in_callback'] += 1

    def release(self, i, part=None):
        if self.res:
            r = self.res[i % len(self.res)]
            held = r.reserved_resources
            if part and len(held) >= 2:
                keys = list(held)
                r.release({k: (held[k] if k == keys[0] else 0) for k in keys})
            else:
                r.release()

    def register(self, req, beh, mutate=False, twice=False):
        if twice:
            # the very same call repeated: equal request, the same callback object -> two waiters, two call-backs
            self.wid += 1
            first = self.wid
            self._register(req, beh, False, [first, first + 1])
            self.wid += 1
            return
        self.wid += 1
        self._register(req, beh, mutate, [self.wid])

    def _register(self, req, beh, mutate, wids):
        mine = dict(req)
        pending = list(wids)
        for w in wids:
            self.waiting[w] = (dict(req), order_fixed(beh))
            self.c['registered'] += 1
        if not order_fixed(beh):
            self.all_order_fixed = False
        if self.depth:
            self.c['from_inside'] += 1

        def cb(rm, request):
            PROGRESS[0] += 1
            if not pending:
                raise Violation('C10.once', f'callback of waiter(s) {wids} ({req}) invoked more often than it was '
                                f'registered (at {self.env.now})')
            wid = pending.pop(0)
            self.calls[wid] = self.calls.get(wid, 0) + 1
            if self.calls[wid] > 1:
                raise Violation('C10.once', f'callback of waiter {wid} ({req}) invoked {self.calls[wid]} times '
                                f'(second time at {self.env.now})')
            if rm is not self.rm:
                raise Violation('C10.args', f'callback of waiter {wid} got {rm!r} instead of the resource manager')
            if request != req:
                raise Violation('C10.args', f'callback of waiter {wid} got request {request} instead of {req}')
            if request is mine:
                raise Violation('C10.args', f'callback of waiter {wid} got the caller\'s dictionary, not a copy')
            if not self.fits_public(req):
                raise Violation('C10.fits-at-call', f'callback of waiter {wid} ({req}) invoked at {self.env.now} '
                                f'although it does not fit: usage/capacity '
                                f'{ {n: (self.rm.get_resource_usage(n), self.rm.get_resource_capacity(n)) for n in req} }')
            # registration order among waiters that only consume or register
            for w2, (r2, fixed2) in self.waiting.items():
                if w2 < wid and self.consume_only_so_far and self.fits_public(r2):
                    raise Violation('C10.order', f'waiter {wid} ({req}) called back at {self.env.now} while the earlier '
                                    f'registered waiter {w2} ({r2}) is still waiting and fits')
            del self.waiting[wid]
            self.log.append((self.env.now, wid))
            self.c['callbacks'] += 1
            if not order_fixed(beh):
                self.consume_only_so_far = False
            self.depth += 1
            try:
                self.behave(beh, request)
            finally:
                self.depth -= 1
        for _ in wids:
            if len(wids) == 1 and wids[0] % 2 == 0:
                # a bound method of an object nobody else keeps a reference to ("fire and forget")
                self.rm.reserve_resources_with_callback(mine, _Job(cb).run)
            else:
                self.rm.reserve_resources_with_callback(mine, cb)
        if mutate:
            # the caller re-uses its dictionary: what was registered is the request as it was at registration
            for n in list(mine):
                mine[n] += 4
            mine['c'] = mine.get('c', 0) + 9

    consume_only_so_far = True

    def behave(self, b, req):
        k = b[0]
        if k == 'same':
            self.reserve(req)
        elif k == 'twice':
            # "take as many sets as fit": the request it was handed, reserved twice
            self.reserve(req)
            self.reserve(req)
        elif k == 'other':
            self.reserve(b[1])
        elif k == 'release':
            self.release(b[1])
        elif k == 'more':
            self.register(b[1], b[2])
        elif k == 'add':
            self.add(b[1], b[2])

    def reinit(self):
        # the same manager is handed to a second System / Environment (documented System(resource_manager=...)) and
        # initialised there; from now on that environment runs
        env2 = Environment(resource_manager=self.rm)
        env2._now = self.env.now          # the second environment continues on the same time axis for the log
        self.rm.initialize(env2)
        self.env = env2

    def advance(self, d):
        self.env.run(d)
        # the statement: when time advances no feasible request is still waiting
        for wid, (req, _) in self.waiting.items():
            if self.fits_public(req):
                raise Violation('C10.waiting-feasible', f'waiter {wid} ({req}) fits but is still waiting after the '
                                f'availability checks of instant {self.env.now - d} ran')


def run_waiters(case, pool_oracles=False):
    pure = PureWaiters()
    with installed(Weights(*case.get('tb', ['const', 0]))):
        real = RealWaiters(case.get('tb'))
        real.pool_oracles = pool_oracles
        for op in case['ops']:
            k, args = op[0], op[1:]
            getattr(pure, k)(*args)
            getattr(real, k)(*args)
            if k == 'advance':
                if real.all_order_fixed:
                    if real.log != pure.log:
                        raise Violation('C10.log', f'callback log (time, waiter) {real.log} differs from the reference '
                                        f'{pure.log}')
                # scripts with releasing / capacity-adding callbacks: the statement leaves the organisation of
                # passes open, so only the model-independent invariants (inside the callbacks and in
                # RealWaiters.advance) decide; no comparison with the reference log.
    return pure, real


# ===================================================================== Hypothesis stateful machine (C09)

def pools_machine(cap):
    """RuleBasedStateMachine over the real pools + reference model. Arguments of releases are drawn FROM THE CURRENT
    STATE (amounts up to what a reservation holds), which plain operation lists cannot do."""
    from hypothesis import strategies as st
    from hypothesis.stateful import RuleBasedStateMachine, rule, precondition, invariant, initialize

    names = st.sampled_from(['a', 'a', 'b', 'b', 'c', 'new', 'zzz'])

    class PoolsMachine(RuleBasedStateMachine):
        def __init__(self):
            super().__init__()
            cap['ops'] = []
            self.p = Pools()
            self.w = installed(Weights('const'))
            self.w.__enter__()

        def do(self, op):
            cap['ops'].append(op)
            self.p.step(op)

        @initialize(a=st.sampled_from([1, 2, 3, 5]), b=st.sampled_from([0, 1, 2]))
        def start(self, a, b):
            self.do(['add', 'a', a])
            if b:
                self.do(['add', 'b', b])

        @rule(n=names, v=st.sampled_from([-3, -2, -1, -1, 1, 1, 2, 3]))
        def add(self, n, v):
            self.do(['add', n, v])

        @rule(req=st.dictionaries(names, st.sampled_from([-1, 0, 1, 1, 1, 2, 3]), min_size=1, max_size=3))
        def reserve(self, req):
            self.do(['reserve', req])

        @precondition(lambda self: any(self.p.hold))
        @rule(data=st.data())
        def release_part_of_what_is_held(self, data):
            idx = data.draw(st.sampled_from([i for i, h in enumerate(self.p.hold) if h]))
            h = self.p.hold[idx]
            what = {n: data.draw(st.integers(0, v)) for n, v in h.items() if data.draw(st.booleans())}
            if what:
                self.do(['release', idx, what])

        @precondition(lambda self: bool(self.p.res))
        @rule(i=st.integers(0, 7), what=st.one_of(st.none(), st.dictionaries(names, st.sampled_from([-1, 0, 1, 2, 5]),
                                                                             min_size=0, max_size=2)))
        def release_anything(self, i, what):
            self.do(['release', i, what])

        @precondition(lambda self: len(self.p.res) >= 2)
        @rule(i=st.integers(0, 7), j=st.integers(0, 7))
        def merge(self, i, j):
            self.do(['merge', i, j])

        @invariant()
        def usage_never_negative(self):
            for n in NAMES:
                if self.p.rm.get_resource_usage(n) < 0:
                    raise Violation('C09.usage-negative', f'usage of {n} is {self.p.rm.get_resource_usage(n)}')

        def teardown(self):
            self.w.__exit__(None, None, None)
            c = self.p.c
            classes = [k for k in ('raised', 'merges', 'partial_releases', 'over_capacity_states', 'invalid_rejected',
                                   'reserve_refused') if c[k]]
            cap['done']({'ops': list(cap['ops'])},
                        {'nontrivial': c['multi_failed_after_success'] > 0, 'classes': ['machine'] + classes,
                         'counters': {k: c[k] for k in ('ops', 'raised', 'reserve_ok', 'reserve_refused', 'merges')}})

    return PoolsMachine
