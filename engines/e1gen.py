"""Hypothesis strategies for E1 cases."""
from hypothesis import strategies as st

DELTAS = [0, 0, 0.125, 0.25, 0.5, 0.5, 1, 1, 1, 1.5, 2, 2.5, 3, 4.75]
ASSETS = [1, 1, 1, 2, 2, 3, 9, None]
BUILTIN = list(range(2, 12))          # every EventType above TERMINATE
FRACS = [-0.5, -0.1, 0.1, 0.5]
WEIGHTS = [0.1, 0.5, 0.5, 0.5, 0.9, 0.25, 0.75]

delta = st.sampled_from(DELTAS)
asset = st.sampled_from(ASSETS)
sched_asset = st.sampled_from([1, 1, 2, 2, 3, 9])
prio = st.one_of(st.sampled_from(BUILTIN), st.sampled_from(BUILTIN),
                 st.builds(lambda k, f: k + f, st.sampled_from(BUILTIN), st.sampled_from(FRACS)))


def inner_ops(depth):
    simple = st.one_of(
        st.tuples(st.just('p'), asset), st.tuples(st.just('u'), asset), st.tuples(st.just('c'), asset),
        st.tuples(st.just('past'), st.sampled_from([0.125, 1, 7, 'ulp', 1e-12, 2.0 ** -20])),
    ).map(list)
    if depth <= 0:
        return st.lists(simple, max_size=2)
    sched = st.tuples(st.just('s'), sched_asset, delta, prio, inner_ops(depth - 1)).map(list)
    return st.lists(st.one_of(sched, sched, simple), max_size=3)


def top_op(with_past=True):
    sched = st.tuples(st.just('s'), sched_asset, delta, prio, inner_ops(2)).map(list)
    simple = st.one_of(st.tuples(st.just('p'), asset), st.tuples(st.just('u'), asset),
                       st.tuples(st.just('c'), asset)).map(list)
    step = st.just(['step'])
    run = st.tuples(st.just('run'), st.sampled_from([0, 0.25, 0.5, 1, 1, 1.5, 2, 3.25])).map(list)
    alts = [sched, sched, sched, simple, simple, step, run]
    if with_past:
        alts.append(st.tuples(st.just('past'), st.sampled_from([0.125, 1, 7, 'ulp', 1e-12, 2.0 ** -20])).map(list))
        alts.append(st.tuples(st.just('again'), st.integers(0, 5)).map(list))
    return st.one_of(*alts)


def nested_pause():
    """The same asset paused twice without an unpause in between, a new event of that asset scheduled between the two
    pauses, the clock advancing in between, then one unpause (and a run so that the resumed events execute)."""
    d = st.sampled_from([0.25, 0.5, 1, 1.5, 2])

    def build(a, d1, d2, d3, p1, p2, adv1, adv2, adv3):
        return [['s', a, d1, p1, []], ['p', a], ['run', adv1], ['s', a, d2, p2, []], ['run', adv2], ['p', a],
                ['run', adv3], ['u', a], ['run', d3 + 3]]
    return st.builds(build, st.sampled_from([1, 2, 3]), d, d, d, prio, prio, d, d, d)


def cases(max_ops, prologue=None, with_past=True, min_ops=8):
    # a final run flushes what is still queued so that late ties are decided too
    epilogue = st.sampled_from([[], [['run', 2]], [['run', 5]], [['run', 1], ['run', 4]]])
    single = top_op(with_past).map(lambda o: [o])
    chunk = st.one_of(*([single] * 12 + [nested_pause()]))
    return st.builds(
        lambda w, chunks, ep: {'weights': w, 'ops': (prologue or []) + [o for c in chunks for o in c] + ep},
        st.lists(st.sampled_from(WEIGHTS), min_size=1, max_size=6),
        st.lists(chunk, min_size=min_ops, max_size=max_ops),
        epilogue)
