"""Hypothesis strategies for E1 cases."""
from hypothesis import strategies as st

DELTAS = [0, 0, 0.125, 0.25, 0.5, 0.5, 1, 1, 1, 1.5, 2, 2.5, 3, 4.75]
ASSETS = [1, 1, 1, 2, 2, 3, 9, 0, 0, None]      # 0 is a legal asset id (falsy!)
BUILTIN = list(range(2, 12))          # every EventType above TERMINATE
FRACS = [-0.5, -0.1, 0.1, 0.5]
WEIGHTS = [0.1, 0.5, 0.5, 0.5, 0.9, 0.25, 0.75]

delta = st.sampled_from(DELTAS)
asset = st.sampled_from(ASSETS)
sched_asset = st.sampled_from([1, 1, 2, 2, 3, 9, 0, 0])
# a dense cluster of custom priorities that differ by less than one from each other, from a built-in one or from
# TERMINATE (1): same-instant events then differ only in the fractional part of their priority
DENSE = [4, 4.5, 4.9, 5, 5.1, 4.1, 1.5, 1.1, 2, 1.9]
prio = st.one_of(st.sampled_from(BUILTIN), st.sampled_from(BUILTIN),
                 st.builds(lambda k, f: k + f, st.sampled_from(BUILTIN), st.sampled_from(FRACS)),
                 st.sampled_from(DENSE))


def inner_ops(depth):
    simple = st.one_of(
        st.tuples(st.just('p'), asset), st.tuples(st.just('u'), asset), st.tuples(st.just('c'), asset),
        st.tuples(st.just('past'), st.sampled_from([0.125, 1, 7, 'ulp', 1e-12, 2.0 ** -20])),
    ).map(list)
    if depth <= 0:
        return st.lists(simple, max_size=2)
    sched = st.tuples(st.just('s'), sched_asset, delta, prio, inner_ops(depth - 1)).map(list)
    if depth >= 2:
        # a run issued from inside an event action
        nested_run = st.tuples(st.just('run'), st.sampled_from([0, 0.25, 0.5, 1, 1.5])).map(list)
        return st.lists(st.one_of(*([sched] * 6 + [simple] * 3 + [nested_run])), max_size=3)
    return st.lists(st.one_of(sched, sched, simple), max_size=3)


def top_op(with_past=True):
    sched = st.tuples(st.just('s'), sched_asset, delta, prio, inner_ops(2)).map(list)
    simple = st.one_of(st.tuples(st.just('p'), asset), st.tuples(st.just('u'), asset),
                       st.tuples(st.just('c'), asset)).map(list)
    step = st.just(['step'])
    run = st.tuples(st.just('run'), st.sampled_from([0, 0.25, 0.5, 1, 1, 1.5, 2, 3.25])).map(list)
    alts = [sched, sched, sched, sched, simple, simple, simple, step, step, run, run,
            st.tuples(st.just('env2'), sched_asset).map(list)]
    if with_past:
        alts.append(st.tuples(st.just('past'), st.sampled_from([0.125, 1, 7, 'ulp', 1e-12, 2.0 ** -20])).map(list))
        alts.append(st.tuples(st.just('again'), st.integers(0, 5)).map(list))
    return st.one_of(*alts)


def nested_pause():
    """The same asset paused twice without an unpause in between, a new event of that asset scheduled between the two
    pauses, the clock advancing in between, then one unpause (and a run so that the resumed events execute)."""
    d = st.sampled_from([0.25, 0.5, 1, 1.5, 2])
    dl = st.sampled_from([0.5, 1, 2, 3, 4, 6])

    def build(a, d1, d2, d3, p1, p2, adv1, adv2, adv3, other, d4, p4):
        # d1 may be much longer than d2: the asset's paused events are then not in time order; an event of another
        # asset lies somewhere in between
        return [['s', a, d1, p1, []], ['s', other, d4, p4, []], ['p', a], ['run', adv1], ['s', a, d2, p2, []],
                ['run', adv2], ['p', a], ['run', adv3], ['u', a], ['run', d3 + 7]]
    return st.builds(build, st.sampled_from([1, 2]), dl, d, d, prio, prio, d, d, d, st.just(3), dl, prio)


def same_instant_cluster():
    """Three or four events of different assets due at one instant, one asset cancelled (or paused) while they are queued,
    then further events scheduled for that same instant, then a run over it."""
    pr = st.sampled_from([2, 5, 9, 11, 4.5, 6, 10, 3])

    def build(d, p1, p2, p3, p4, p5, which, how, later):
        ops = [['s', 1, d, p1, []], ['s', 2, d, p2, []], ['s', 3, d, p3, []], ['s', 9, d, p4, []],
               [how, [1, 2, 3, 9][which]],
               ['s', 0, d, p5, []], ['s', [2, 3, 9, 1][which], d, p1, []]]
        if how == 'p' and later:
            ops.append(['u', [1, 2, 3, 9][which]])
        return ops + [['run', d + 0.5]]
    return st.builds(build, st.sampled_from([0, 0.5, 1, 2]), pr, pr, pr, pr, pr, st.integers(0, 3),
                     st.sampled_from(['c', 'c', 'p']), st.booleans())


def cases(max_ops, prologue=None, with_past=True, min_ops=8):
    # a final run flushes what is still queued so that late ties are decided too
    epilogue = st.sampled_from([[], [['run', 2]], [['run', 5]], [['run', 1], ['run', 4]]])
    single = top_op(with_past).map(lambda o: [o])
    chunk = st.one_of(*([single] * 12 + [nested_pause(), same_instant_cluster()]))
    return st.builds(
        lambda w, chunks, ep: {'weights': w, 'ops': (prologue or []) + [o for c in chunks for o in c] + ep},
        st.lists(st.sampled_from(WEIGHTS), min_size=1, max_size=6),
        st.lists(chunk, min_size=min_ops, max_size=max_ops),
        epilogue)


# ----------------------------------------------------------------- float-noise profile (non-dyadic times)
NOISE = [0.1, 0.2, 0.3, 0.7, 0.8, 1.1, 1.3, 2.3, 2.6, 3.6, 6.2, 6.7, 1 / 3]


def pause_at_due_instant():
    """An event that is due in the very instant its asset gets paused (a higher-priority event of that instant pauses
    the asset); the asset is resumed from inside an event whose due time is an independent decimal literal."""
    lit = st.integers(1, 99).map(lambda k: k / 10)

    def build(a, p, gap, lo, hi):
        n = round(p + gap, 1)
        return [['sa', a, p, lo, []], ['sa', 3, p, hi, [['p', a]]], ['sa', 3, n, 6, [['u', a]]]]
    return st.builds(build, st.sampled_from([1, 2]), lit, lit, st.sampled_from([2, 3, 5]), st.sampled_from([8, 10, 11.5]))


def noise_cases(max_chunks):
    d = st.sampled_from(NOISE)
    lit = st.integers(1, 150).map(lambda k: k / 10)
    sched = st.tuples(st.just('sa'), sched_asset, lit, prio, st.just([])).map(list).map(lambda o: [o])
    rel = st.tuples(st.just('s'), sched_asset, d, prio, st.just([])).map(list).map(lambda o: [o])
    simple = st.one_of(st.tuples(st.just('p'), asset), st.tuples(st.just('u'), asset)).map(list).map(lambda o: [o])
    run = st.tuples(st.just('run'), d).map(list).map(lambda o: [o])
    chunk = st.one_of(sched, sched, rel, simple, run, pause_at_due_instant(), pause_at_due_instant())
    return st.builds(lambda w, chunks: {'weights': w, 'noise': True, 'ops': [o for c in chunks for o in c] + [['run', 21.3]]},
                     st.lists(st.sampled_from(WEIGHTS), min_size=1, max_size=4),
                     st.lists(chunk, min_size=3, max_size=max_chunks))


def valid_case(case):
    """Input domain of E1: priorities above TERMINATE, non-negative delays and durations (used by the minimiser)."""
    def ok(ops):
        for op in ops:
            k = op[0]
            if k in ('s', 'sa'):
                if not (isinstance(op[3], (int, float)) and op[3] > 1) or not (isinstance(op[2], (int, float)) and op[2] >= 0):
                    return False
                if not ok(op[4]):
                    return False
            elif k == 'run':
                if not (isinstance(op[1], (int, float)) and op[1] >= 0):
                    return False
            elif k in ('p', 'u', 'c'):
                if op[1] == -1:
                    return False
            elif k == 'past':
                if not (op[1] == 'ulp' or (isinstance(op[1], (int, float)) and op[1] > 0)):
                    return False
        return True
    return ok(case.get('ops', []))
