import math

"""E4: serial lines source -> (handlers, processors, buffers)* -> sink against the blocking-after-service
max-plus recurrence written from the statement of C04 (independent of the code under test).

case = {"src":[c0,budget], "stations":[["H"|"P",c] | ["B",delay,K] ...], "sink":c, "T":horizon, "tb":[policy,seed],
        "expect_sink": n (optional, documented example count),
        "refills": [[time, n>0] ...] (optional: adjust_part_count(+n) from an event at that time), "refill_prio": p}"""
from simprocesd.model import System
from simprocesd.model.factory_floor import Source, Sink, PartHandler, PartProcessor, Buffer

from vlib.runner import PROGRESS, Violation, Inconclusive
from vlib.weights import Weights, installed

INF = float('inf')


class RateHandler(PartHandler):
    """A user's station whose (constant) cycle time comes from an overridden cycle_time getter - the pattern the library's
    own Buffer uses - instead of the constructor argument."""
    seconds = 0

    @PartHandler.cycle_time.getter
    def cycle_time(self):
        return self.seconds


class RateProcessor(PartProcessor):
    seconds = 0

    @PartProcessor.cycle_time.getter
    def cycle_time(self):
        return self.seconds


def num(x):
    return INF if x == 'inf' else x


def reference(case):
    c0, budget = case['src'][0], num(case['src'][1])
    st = case['stations']
    cs = case['sink']
    T = case['T']
    n = len(st)
    D = [[] for _ in range(n + 1)]      # D[j][k]: time part k leaves station j (0 = source) = enters station j+1
    blocked = 0
    k = 0
    refills = sorted((r, q) for r, q in case.get('refills', []))

    def allowed_from(k):
        # the time from which the budget covers part number k (0-based); None = never
        # a part is supplied only while at least one WHOLE part of the budget is left (budgets may be fractional)
        if budget - k >= 1:
            return 0
        cum = budget
        for r, q in refills:
            cum += q
            if cum - k >= 1:
                return r
        return None
    while True:
        a = allowed_from(k)
        if a is None:
            break
        # the source started this part's cycle when the previous part left (also when its budget was used up then);
        # a part the budget does not cover yet waits in the source until the budget is raised
        ready = max((D[0][k - 1] if k > 0 else 0) + c0, a)
        row = []
        for j in range(0, n + 1):
            nxt = j + 1
            if nxt == n + 1:
                free = (D[n][k - 1] + cs) if k > 0 else -INF
            else:
                kind = st[nxt - 1]
                K = num(kind[2]) if kind[0] == 'B' else 1
                K = K if K == INF else math.floor(K)      # a fractional capacity counts down
                free = D[nxt][k - K] if (K != INF and k - K >= 0) else -INF
            d = max(ready, free)
            if free > ready:
                blocked += 1
            row.append(d)
            if nxt <= n:
                kind = st[nxt - 1]
                ready = max(d + kind[1], D[nxt][k - 1] if k > 0 else -INF)
        if row[0] > T:
            break
        for j in range(n + 1):
            D[j].append(row[j])
        k += 1
        if k > 200000:
            raise Inconclusive('reference too long')
    return [[t for t in D[j] if t <= T] for j in range(0, n + 1)], blocked


def run_real(case):
    with installed(Weights(*case['tb'])):
        s = System()
        c0, budget = case['src'][0], num(case['src'][1])
        src = Source('S0', cycle_time=c0, starting_parts=budget)
        up = src
        names = []
        for i, k in enumerate(case['stations']):
            nm = f'X{i + 1}'
            if k[0] == 'H':
                d = PartHandler(nm, upstream=[up], cycle_time=k[1])
            elif k[0] == 'P':
                d = PartProcessor(nm, upstream=[up], cycle_time=k[1])
            elif k[0] in ('HS', 'PS'):
                # constructed with another value, then configured through the documented setter before the first run
                d = (PartHandler if k[0] == 'HS' else PartProcessor)(nm, upstream=[up], cycle_time=7)
                d.cycle_time = k[1]
            elif k[0] in ('HU', 'PU'):
                d = (RateHandler if k[0] == 'HU' else RateProcessor)(nm, upstream=[up])
                d.seconds = k[1]
            else:
                cap = num(k[2])
                d = Buffer(nm, upstream=[up], minimum_delay=k[1], capacity=None if cap == INF else cap)
            names.append(nm)
            up = d
        sink = Sink('SINK', upstream=[up], cycle_time=case['sink'])
        names.append('SINK')
        env = s.env
        seen = {nm: [] for nm in names}
        for dev in s.find_assets(subtype=PartHandler):
            if dev.name in seen:
                # entry times as the harness sees them (clock at the moment the station's receive callback runs)
                dev.add_receive_part_callback(lambda d_, p_: seen[d_.name].append(env.now))
        for r, q in case.get('refills', []):
            env.schedule_event(r, src.id, lambda q=q: src.adjust_part_count(q), case.get('refill_prio', 2), 'refill')
        orig = env.step
        st = {'n': 0, 'zero': 0}

        def step():
            before = env.now
            orig()
            PROGRESS[0] += 1
            st['n'] += 1
            st['zero'] = st['zero'] + 1 if env.now == before else 0
            if st['zero'] > 50000:
                raise Violation('C04.no-progress', f'50000 consecutive events at time {env.now} without the clock '
                                f'advancing: the serial line never reaches its horizon')
            if st['n'] > 3000000:
                raise Inconclusive('event cap')
        env.step = step
        s.simulate(case['T'], print_summary=False)
        rp = s.simulation_data.get('received_part', {})
        recorded = [[r[0] for r in rp.get(nm, [])] for nm in names]
        observed = [seen[nm] for nm in names]
        if recorded != observed:
            j = next(j for j in range(len(names)) if recorded[j] != observed[j])
            raise Violation('C04.entry-time', f'station {names[j]}: the received_part records say parts entered at '
                            f'{recorded[j][:6]}, the receive callbacks ran at {observed[j][:6]}')
        return observed, sink.received_parts_count, names


def check(case):
    ref, blocked = reference(case)
    real, count, names = run_real(case)
    for j, (a, b) in enumerate(zip(real, ref)):
        if a != b:
            i = next((i for i in range(min(len(a), len(b))) if a[i] != b[i]), min(len(a), len(b)))
            raise Violation('C04.entry-time', f'station {names[j]}: part number {i + 1} entered at '
                            f'{a[i] if i < len(a) else "never (within the horizon)"}, the recurrence says '
                            f'{b[i] if i < len(b) else "never (within the horizon)"}; first entries real {a[:6]} '
                            f'reference {b[:6]}')
    if count != len(ref[-1]):
        raise Violation('C04.sink-count', f'sink received {count} parts, the recurrence delivers {len(ref[-1])}')
    if case.get('expect_sink') is not None and count != case['expect_sink']:
        raise Violation('C04.documented-count', f'sink received {count} parts, the project documents '
                        f'{case["expect_sink"]} for this example')
    return ref, blocked, count
