"""E3 part 1: spec -> real simprocesd model (DESIGN Appendix A, E3 case format).

spec = {"tb":[policy,seed], "T":[d1,...], "res":{name:cap}, "maint": capacity|None,
        "groups":[{"n":name,"devs":[dev...],"in":[names]|None,"out":[names]|None}],
        "devs":[dev...]  (topological order; "up" refers to earlier names),
        "actions":[[time,priority,kind,args...]...], "profile":name}
dev = {"k":"S","n":..,"c":..,"budget":..,"val":..,"batch":size|None|[sizes...]}
    | {"k":"H"|"P","n":..,"c":..,"up":[..],"res":{..}|None,"alt":c|None,"wod":d,"wocap":c,"wocost":v,"valadd":v}
    | {"k":"B","n":..,"c":delay,"cap":K,"up":[..]} | {"k":"BA","n":..,"size":n|None,"up":[..]}
    | {"k":"G","n":..,"mod":m,"neg":bool,"up":[..]}  (complementary pair: neg False/True)
    | {"k":"GP","n":..,"g":group,"up":[..]} | {"k":"K","n":..,"c":..,"up":[..]}
action kinds: fail(name,delay) shutdown(name) restore(name) maint(name,dur) wo(name) block(name,bool)
              addres(res,amount) adjust(source,n) offset(name,v) rewire_add(dev,upstream)
"""
import math

from simprocesd.model import System, EventType
from simprocesd.model.factory_floor import (Part, Batch, PartGenerator, Source, Sink, PartHandler, PartProcessor,
                                             Buffer, PartBatcher, DecisionGate, Group, Maintainer,
                                             PartFlowController)
from simprocesd.model.sensors import AttributeProbe, PeriodicSensor

INF = float('inf')


def num(x):
    """JSON 'inf' -> float inf."""
    if x == 'inf':
        return INF
    return x


def part_index(part):
    """Index encoded in the part's name by Gen: '<src>p_<n>' or '<src>p_<n>.<i>' (never the asset id: W3)."""
    if isinstance(part, Batch):
        # a batch made by a PartBatcher has a default name that carries its asset id: use its first leaf instead
        return part_index(part.parts[0]) if part.parts else 0
    try:
        return int(part.name.split('_')[-1].split('.')[0])
    except ValueError:
        return 0


class Pallet(Batch):
    """A user-defined kind of batch (subclassing Batch is ordinary use of the library)."""


class Gen(PartGenerator):
    """PartGenerator that logs every leaf part it creates; optionally emits batches (sizes cycle through a list)."""

    def __init__(self, prefix, value, batch, log, cls=None):
        super().__init__(prefix, value)
        self.batch = batch
        self.log = log
        self.cls = cls or Batch

    def generate_part_helper(self, name, counter):
        b = self.batch
        if isinstance(b, list):
            b = b[(counter - 1) % len(b)] if b else None
        if b is None:
            p = Part(name, self.value)
            self.log.append(p)
            return p
        if isinstance(b, dict):      # {"nest": [2, 1]}: a batch of batches (a pallet of boxes)
            outer = Batch(name)
            for j, n in enumerate(b['nest']):
                inner = Batch(f'{name}.b{j}')
                for i in range(n):
                    p = Part(f'{name}.{j}{i}', self.value)
                    self.log.append(p)
                    inner.parts.append(p)
                outer.parts.append(inner)
            return outer
        batch = self.cls(name)
        for i in range(b):
            p = Part(f'{name}.{i}', self.value)
            self.log.append(p)
            batch.parts.append(p)
        return batch


class WP(PartProcessor):
    """PartProcessor that reports a work-order duration / capacity / cost (default maintenance scheme)."""
    wo_dur = 1.5
    wo_cap = 1
    wo_cost = 2

    def get_work_order_duration(self, tag):
        return self.wo_dur

    def get_work_order_capacity(self, tag):
        return self.wo_cap

    n_started = 0
    wear = 0

    @PartProcessor.cycle_time.getter
    def cycle_time(self):
        # a machine whose speed depends on the time of day (same pattern as the library's own Buffer: a subclass
        # overrides the getter of the public property); constant within an instant
        if not self.wear or self._env is None:
            return self._cycle_time
        return self._cycle_time + self.wear * (int(self._env.now) % 3)

    def current_cost(self):
        # the cost of an order depends on the machine's state when the order starts: how many orders it has had
        # and whether it is still running
        return self.wo_cost + 0.5 * (self.n_started % 3) + (1 if not self.is_operational() else 0)

    def get_work_order_cost(self, tag):
        return self.current_cost()

    def start_work(self, tag):
        self.model.wo_started.append((self.env.now, self.name, self.wo_dur, self.current_cost()))
        self.n_started += 1
        super().start_work(tag)

    def end_work(self, tag):
        self.model.wo_ended.append((self.env.now, self.name))
        super().end_work(tag)


def toggle_cycle(m, p):
    """Receive callback changing the cycle time (depends only on the part's name index)."""
    m.cycle_time = m.base_cycle if part_index(p) % 2 else m.alt_cycle


def _add(p, label, v):
    if isinstance(p, Batch):
        for q in p.parts:
            _add(q, label, v)
    else:
        p.add_value(label, v)


def add_value_cb(m, p):
    _add(p, 'processed', m.valadd)


def recv_value_cb(m, p):
    _add(p, 'received', m.rvaladd)


# what a user-written decider may hand back for "no" / "yes": the gate goes by truthiness
NO = [False, None, 0, '', []]
YES = [True, 1, 'yes', [0]]


def gate_pred(gate, part, m=2, neg=False, style=0):
    ok = (part_index(part) % m == 0) != neg
    return YES[style % 4] if ok else NO[style % 5]


def quality_pred(gate, part, q=2, neg=False, style=0):
    """Gate on the part's (mutable) state: quality reached q. The complementary gate has neg=True."""
    ok = (part.quality >= q) != neg
    return YES[style % 4] if ok else NO[style % 5]


def add_quality_cb(m, p):
    p.quality += m.qadd


class Model:
    def __init__(self, spec, weights):
        self.spec = spec
        self.w = weights
        self.sys = System()
        self.env = self.sys.env
        self.D = {}
        self.kinds = {}
        self.specs = {}
        self.generated = []
        self.pending_offset = {}
        self.budget = {}
        self.rewired = set()
        self.action_log = []
        self.group_of = {}
        self.pre = []
        self.late_assets = []
        self.wo_started = []
        self.wo_ended = []
        for r, c in spec.get('res', {}).items():
            self.sys.resource_manager.add_resources(r, c)
        mc = spec.get('maint', 2)
        self.v0 = {}            # id(asset) -> the starting value the harness passed to the constructor
        self.extras = []
        self.maint = Maintainer('maint', capacity=num(mc) if mc is not None else 2, value=spec.get('maint_v0', 0))
        self.v0[id(self.maint)] = spec.get('maint_v0', 0)
        for g in spec.get('groups', []):
            for d in g['devs']:
                self.mk(d, in_group=g['n'])
            kw = {}
            if g.get('in'):
                kw['input_override'] = [self.D[x] for x in g['in']]
            if g.get('out'):
                kw['output_override'] = [self.D[x] for x in g['out']]
            self.D[g['n']] = Group(g['n'], [self.D[n_] for n_ in (g.get('listed') or [d['n'] for d in g['devs']])], **kw)
        for d in spec['devs']:
            self.mk(d)
        for x in spec.get('extras', []):
            # further value-carrying assets that take no part in the flow: a second crew (possibly with the SAME name as
            # the first one: names need not be unique) and periodic sensors bought at a price
            if x['k'] == 'M':
                o = Maintainer(x['n'], capacity=x.get('cap', 1), value=x['v'])
            else:
                tgt = self.D[x['target']]
                o = PeriodicSensor(x['iv'], [AttributeProbe('value', tgt)], name=x['n'], value=x['v'])
            self.v0[id(o)] = x['v']
            self.extras.append(o)
        for (frm, to) in spec.get('loops', []):
            # documented rework loop: a gate leads back into an earlier buffer
            self.D[to].set_upstream(self.D[to].upstream + [self.D[frm]])
        for (nm_, v_) in spec.get('pre_offsets', []):
            # a one-shot offset requested right after construction, before the first simulate() call
            self.D[nm_].offset_next_cycle_time(v_)
            self.pending_offset[nm_] = self.pending_offset.get(nm_, 0) + v_
        for a in spec.get('actions', []):
            self.sched(a)
        # API calls made BETWEEN two simulate() calls (not from inside an event): [[after_run_index, kind, args...]]
        self.between = {}
        for b in spec.get('between', []):
            self.between.setdefault(b[0], []).append(self.make_action([None, None] + list(b[1:])))

    def mk(self, d, in_group=None):
        k = d['k']
        up = [self.D[u] for u in d.get('up', [])]
        if k == 'S':
            o = Source(d['n'], Gen(d['n'] + 'p', d.get('val', 0), d.get('batch'), self.generated,
                                   Pallet if d.get('pallet') else None), d['c'], num(d['budget']))
            self.budget[d['n']] = num(d['budget'])
        elif k == 'P':
            o = WP(d['n'], up, d['c'], value=d.get('v0', 0), resources_for_processing=d.get('res'))
            o.model = self
            o.wo_dur = d.get('wod', 1.5)
            o.wo_cap = d.get('wocap', 1)
            o.wo_cost = d.get('wocost', 2)
            o.wear = d.get('wear', 0)
            if d.get('alt') is not None:
                o.base_cycle = d['c']
                o.alt_cycle = d['alt']
                o.add_receive_part_callback(toggle_cycle)
            if d.get('valadd'):
                o.valadd = d['valadd']
                o.add_finish_processing_callback(add_value_cb)
            if d.get('rvaladd'):
                o.rvaladd = d['rvaladd']
                o.add_receive_part_callback(recv_value_cb)
            if d.get('qadd'):
                o.qadd = d['qadd']
                o.add_finish_processing_callback(add_quality_cb)
        elif k == 'H':
            o = PartHandler(d['n'], up, d['c'], d.get('v0', 0))
            if d.get('rvaladd'):
                o.rvaladd = d['rvaladd']
                o.add_receive_part_callback(recv_value_cb)
            if d.get('alt') is not None:
                o.base_cycle = d['c']
                o.alt_cycle = d['alt']
                o.add_receive_part_callback(toggle_cycle)
        elif k == 'B':
            cap = num(d.get('cap', 'inf'))
            o = Buffer(d['n'], up, d['c'], None if cap == INF else cap, d.get('v0', 0))
        elif k == 'BA':
            o = PartBatcher(d['n'], up, output_batch_size=d['size'])
        elif k == 'G':
            from functools import partial
            if 'q' in d:
                o = DecisionGate(d['n'], up, partial(quality_pred, q=d['q'], neg=d['neg'], style=d.get('style', 0)))
            else:
                o = DecisionGate(d['n'], up, partial(gate_pred, m=d['mod'], neg=d['neg'], style=d.get('style', 0)))
        elif k == 'GP':
            o = self.D[d['g']].get_new_group_path(d['n'], up)
        elif k == 'K':
            o = Sink(d['n'], up, d['c'], collect_parts=True)
            if d.get('rvaladd'):
                # a user callback on the sink changes the part's value: the sink is credited with the value at receipt
                o.rvaladd = d['rvaladd']
                o.add_receive_part_callback(recv_value_cb)
        else:
            raise ValueError(k)
        self.D[d['n']] = o
        if k in ('P', 'H', 'B'):
            self.v0[id(o)] = d.get('v0', 0)
        if isinstance(o, PartHandler):
            # first callback of every holding device: observers that must see the part as received
            o._received_part_callbacks.insert(0, self._first)
        self.kinds[d['n']] = k
        self.specs[d['n']] = d
        self.group_of[d['n']] = in_group

    def _first(self, dev, part):
        # a caller may do what it likes with the list the routing_history accessor returns
        h = part.routing_history
        h.reverse()
        h.append('scribble')
        del h[:1]
        for f in self.pre:
            f(dev, part)

    # ------------------------------------------------------------------------------ external actions
    def sched(self, a):
        self.env.schedule_event(a[0], -3, self.make_action(a), a[1], f'action {a[2]}')

    def make_action(self, a):
        kind = a[2]
        env = self.env
        D = self.D
        rm = self.sys.resource_manager

        def note(*x):
            self.action_log.append((env.now, kind) + tuple(x))

        if kind == 'fail':
            def f(P=D[a[3]], delay=a[4]):
                note(P.name, delay)
                P.schedule_failure(env.now + delay, 'generated failure')
        elif kind == 'shutdown':
            def f(P=D[a[3]]):
                note(P.name)
                P.shutdown()
        elif kind == 'restore':
            def f(P=D[a[3]]):
                note(P.name)
                P.restore_functionality()
        elif kind == 'maint':
            def f(P=D[a[3]], dur=a[4]):
                note(P.name, dur)
                P.shutdown()
                env.schedule_event(env.now + dur, -3, P.restore_functionality, EventType.RESTORE, 'generated restore')
        elif kind == 'wo':
            def f(P=D[a[3]], tag=(a[4] if len(a) > 4 else None)):
                r = self.maint.create_work_order(P, tag)
                note(P.name, r)
        elif kind == 'block':
            def f(dev=D[a[3]], v=a[4]):
                note(dev.name, v)
                dev.block_input = v
        elif kind == 'addres':
            def f(n=a[3], v=a[4]):
                if rm.get_resource_capacity(n) + v >= 0:
                    note(n, v)
                    rm.add_resources(n, v)
        elif kind == 'adjust':
            def f(S=D[a[3]], v=a[4]):
                note(S.name, v)
                # documented clamp: B <- max(B + v, produced)
                self.budget[S.name] = max(self.budget[S.name] + v, S.produced_parts)
                S.adjust_part_count(v)
        elif kind == 'revalue':
            def f(S=D[a[3]], v=a[4]):
                # stock that has not left the source yet is revalued (the owner of the parts keeps a reference)
                note(S.name, v)
                if S._output is not None:
                    _add(S._output, 'revalued', v)
        elif kind == 'offset':
            def f(P=D[a[3]], v=a[4]):
                note(P.name, v)
                P.offset_next_cycle_time(v)
                self.pending_offset[P.name] = self.pending_offset.get(P.name, 0) + v
        elif kind == 'newsink':
            def f(ups=[D[u] for u in a[3]], name=a[4]):
                # an asset created after the simulation has started (between two runs)
                note(name)
                self.D[name] = Sink(name, ups, 0.5, collect_parts=True)
                self.D[name]._received_part_callbacks.insert(0, self._first)
                self.kinds[name] = 'K'
                self.specs[name] = {'k': 'K', 'n': name, 'c': 0.5, 'up': [u.name for u in ups]}
                self.late_assets.append(self.D[name])
        elif kind == 'newsource':
            def f(c=a[3], budget=a[4]):
                # a source with its own sink created after the simulation has started (between two runs)
                note('SX')
                sx = Source('SX', Gen('SXp', 1, None, self.generated, None), c, budget)
                kx = Sink('KSX', [sx], 0, collect_parts=True)
                kx._received_part_callbacks.insert(0, self._first)
                self.budget['SX'] = budget
                for o, k, spec_ in ((sx, 'S', {'k': 'S', 'n': 'SX', 'c': c, 'budget': budget, 'batch': None, 'val': 1}),
                                    (kx, 'K', {'k': 'K', 'n': 'KSX', 'c': 0, 'up': ['SX']})):
                    self.D[o.name] = o
                    self.kinds[o.name] = k
                    self.specs[o.name] = spec_
                    self.late_assets.append(o)
        elif kind == 'newline':
            def f(ups=[D[u] for u in a[3]], c=a[4]):
                # a processor and its sink created after the simulation has started (between two runs)
                note('PX')
                px = WP('PX', ups, c)
                px.model = self
                px.wo_dur, px.wo_cap, px.wo_cost = 1, 1, 0
                px._received_part_callbacks.insert(0, self._first)
                kx = Sink('KPX', [px], 0, collect_parts=True)
                kx._received_part_callbacks.insert(0, self._first)
                for o, k, spec_ in ((px, 'P', {'k': 'P', 'n': 'PX', 'c': c, 'up': [u.name for u in ups]}),
                                    (kx, 'K', {'k': 'K', 'n': 'KPX', 'c': 0, 'up': ['PX']})):
                    self.D[o.name] = o
                    self.kinds[o.name] = k
                    self.specs[o.name] = spec_
                    self.late_assets.append(o)
        elif kind == 'rewire_add':
            def f(x=D[a[3]], u=D[a[4]]):
                if u not in x.upstream:     # W9: never a duplicate
                    note(x.name, u.name)
                    self.rewired.add(x.name)
                    x.set_upstream(x.upstream + [u])
        else:
            raise ValueError(kind)
        return f


def leaves(p):
    if p is None:
        return []
    if isinstance(p, Batch):
        out = []
        for q in p.parts:
            out += leaves(q)
        return out
    return [p]


def holdings(dev):
    """Leaf parts physically inside a device (sinks excluded: they keep delivered parts)."""
    out = []
    if isinstance(dev, Sink) or not isinstance(dev, PartHandler):
        return out
    out += leaves(dev._part) + leaves(dev._output)
    if isinstance(dev, Buffer):
        for p in dev.stored_parts:      # public accessor: the storage layout is the buffer's own business
            out += leaves(p)
    if isinstance(dev, PartBatcher):
        out += leaves(dev._in_progress_batch)
    return out


def ready_part(dev, env, strict=False):
    """The part the device would hand over right now, or None. strict (float-noise models): a buffered part only
    counts as ready once it is overdue by more than two roundings of the clock in exact arithmetic - at the very
    instant it becomes due the buffer's own timer may legitimately lie one rounding later."""
    if isinstance(dev, Sink) or not isinstance(dev, PartHandler):
        return None
    if not dev.is_operational():
        return None
    if isinstance(dev, Buffer):
        if not dev._buffer:
            return None
        stored = dev.stored_parts
        if not stored:
            return None
        p = stored[0]
        # arrival time of the head: the entry of the private store that carries this very part (layout-agnostic)
        ent = next((e for e in dev._buffer if isinstance(e, tuple) and e and e[-1] is p), None)
        if ent is None:
            return None
        t0 = ent[0]
        ulp = math.ulp(env.now) if env.now else 5e-324
        if strict:
            from fractions import Fraction
            if Fraction(env.now) - Fraction(t0) - Fraction(dev.minimum_delay) <= 2 * Fraction(ulp):
                return None
            return p
        if dev.minimum_delay - (env.now - t0) > ulp:
            return None
        return p
    if isinstance(dev, Source):
        if dev._output is None or dev.remaining_parts < 1:
            return None
        return dev._output
    return dev._output
