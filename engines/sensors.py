"""E7: sensors on a small real line.

case = {"src_c":c, "proc_c":c, "iv":interval, "cap":c|"inf", "n":sensing_interval, "ncb":k, "cms":[names added, in order],
        "fault":[t_fail, t_restore]|null, "T":horizon, "tb":[policy,seed]}"""
from simprocesd.model import System, EventType
from simprocesd.model.factory_floor import Source, PartProcessor, Sink
from simprocesd.model.sensors import PeriodicSensor, OutputPartSensor, AttributeProbe, Probe
from simprocesd.model.cms import Cms

import copy

from vlib.runner import Violation
from vlib.weights import Weights, installed

INF = float('inf')


class Tg:
    pass


def run(case):
    with installed(Weights(*case['tb'])):
        return _run(case)


def _run(case):
    s = System()
    env = s.env
    src = Source('S', cycle_time=case['src_c'])
    P = PartProcessor('P', [src], case['proc_c'])

    def setq(m, p):
        p.quality = round(env.now * 3) % 7
    P.add_finish_processing_callback(setq)
    # a zero-cycle station right behind the sensed machine changes the probed attribute at the same instant
    P2 = PartProcessor('P2', [P], 0)

    def spoil(m, p):
        p.quality = -1
    P2.add_finish_processing_callback(spoil)
    Sink('K', [P2])
    cap = INF if case['cap'] == 'inf' else case['cap']
    iv = case['iv']
    n = case['n']
    T = case['T']
    tg = Tg()
    tg.v = [0]
    tg.w = 0

    def bump():
        tg.w += 1
        tg.v.append(tg.w)
    bumps = [k * 0.5 for k in range(1, int(T / 0.5) + 2)]
    for b in bumps:
        env.schedule_event(b, -6, bump, EventType.OTHER_HIGH_PRIORITY)
    # a second attribute changes at the same instants through events of LOWER priority than a measurement (between
    # OTHER_LOW_PRIORITY and SENSOR): a sample taken at such an instant shows the value before the change
    tg.u = 0
    tg.e = []       # empty (falsy) at the first measurements, filled in place from T/2 on

    def bump_u():
        tg.u += 1
        if env.now >= T / 2:
            tg.e.append(tg.u)
    for b in bumps:
        env.schedule_event(b, -6, bump_u, EventType.SENSOR - 1)
    box = {}
    kept = []
    cb = []
    ocb = []
    cm = []
    t0 = case.get('late') or 0      # the periodic sensor (and the cms wiring) may be created while the run is under way

    class C(Cms):
        def on_sense(self, sensor, time, data):
            cm.append((sensor.name if sensor is not box.get('twin') else 'twin', time, list(data)))
    c = C(None, 'cms')
    cm2 = []

    class C2(Cms):
        def on_sense(self, sensor, time, data):
            cm2.append((sensor.name, time))
    c2 = C2(None, 'cms2') if case.get('cms2') else None
    os_ = OutputPartSensor(P, [AttributeProbe('quality', None), AttributeProbe('name', None)], n, 'os',
                           data_capacity=cap)
    os_.add_on_sense_callback(lambda se, t, d: ocb.append((se, t, list(d), env.now)))

    def make_periodic():
        ps = PeriodicSensor(iv, [AttributeProbe('w', tg), Probe(lambda t: t.v, tg), AttributeProbe('v', tg),
                                 AttributeProbe('u', tg), AttributeProbe('e', tg)], 'ps',
                            data_capacity=cap)
        box['ps'] = ps
        for i in range(case['ncb']):
            ps.add_on_sense_callback(lambda se, t, d, i=i: cb.append((i, se, t, list(d), env.now)))
        # a consumer that keeps the list it was handed (without copying it)
        ps.add_on_sense_callback(lambda se, t, d: kept.append((d, [copy.copy(x) for x in d])))

        def aligned(se, t, d):
            # whoever looks at the stored window from inside a callback (a Cms does) sees aligned series
            lens = {k if isinstance(k, str) else 'probe': len(v) for k, v in se.data.items()}
            if len(set(len(v) for v in se.data.values())) != 1:
                raise Violation('C19.alignment', f'inside an on-sense callback at {t} the series of the sensor have '
                                f'different lengths: {[len(v) for v in se.data.values()]} (time series last)')
        ps.add_on_sense_callback(aligned)
        if case.get('twin_name'):
            # a second, different sensor that carries the same user-chosen name
            box['twin'] = PeriodicSensor(case['twin_name'], [AttributeProbe('w', tg)], 'ps')
        for nm in case['cms']:
            c.add_sensor(ps if nm == 'ps' else os_)
        if case.get('twin_name') and 'ps' in case['cms']:
            c.add_sensor(box['twin'])
        if c2 is not None:
            c2.add_sensor(ps)       # a second monitoring system listens to the same sensor
    if t0:
        env.schedule_event(t0, -6, make_periodic, EventType.OTHER_HIGH_PRIORITY + 1)
    elif case.get('init'):
        # the sensor is built by another asset while that asset is being initialised (a machine that brings its own
        # instrumentation)
        from simprocesd.model.factory_floor import Asset

        class Maker(Asset):
            def initialize(self, env_):
                super().initialize(env_)
                make_periodic()
        Maker('maker')
    else:
        make_periodic()
    if case.get('readd') and not t0 and 'ps' in case['cms']:
        # the same add_sensor call repeated after the simulation has started: still registered once
        env.schedule_event(case['readd'], -6, lambda: c.add_sensor(box['ps']), EventType.OTHER_LOW_PRIORITY)
    if case.get('fault'):
        tf, tr = case['fault']
        env.schedule_event(tf, -6, lambda: P.schedule_failure(env.now), EventType.OTHER_LOW_PRIORITY)
        env.schedule_event(tr, -6, P.restore_functionality, EventType.RESTORE)
    s.simulate(T, print_summary=False)
    ps = box['ps']

    # ---- periodic sensor: k-th sample at the k-fold repeated addition of the interval, counted from its start
    times = []
    t = t0
    while True:
        t = t + iv
        if t > T:
            break
        times.append(t)
    keep = times if cap == INF else times[-cap:]
    if 'time' not in ps.data:
        raise Violation('C19.time-series', f'the periodic sensor has no time series after a run of {T}: it never started')
    if ps.data['time'] != keep:
        raise Violation('C19.time-series', f'periodic sensor (interval {iv}, capacity {case["cap"]}) time series has '
                        f'{len(ps.data["time"])} entries {ps.data["time"][:4]}..{ps.data["time"][-2:]}, expected the most '
                        f'recent {len(keep)}: {keep[:4]}..{keep[-2:]}')
    pr = ps.probes

    def w_at(x):
        return sum(1 for b in bumps if b <= x)
    expw = [w_at(x) for x in keep]
    if ps.data[pr[0]] != expw:
        raise Violation('C19.probe-series', f'attribute probe series {ps.data[pr[0]][-5:]} expected {expw[-5:]} '
                        f'(capacity {case["cap"]}, {len(times)} samples)')
    def u_at(x):
        return sum(1 for b in bumps if b < x)
    expu = [u_at(x) for x in keep]
    if ps.data[pr[3]] != expu:
        raise Violation('C19.probe-series', f'series of an attribute that changes at the sampling instants through events of '
                        f'lower priority than the measurement: {ps.data[pr[3]][-5:]}, expected the values before those '
                        f'changes {expu[-5:]}')
    def e_at(x):
        return [k + 1 for k, b in enumerate(bumps) if b < x and b >= T / 2]
    expe = [e_at(x) for x in keep]
    if ps.data[pr[4]] != expe:
        k = next(i for i in range(len(expe)) if i >= len(ps.data[pr[4]]) or ps.data[pr[4]][i] != expe[i])
        raise Violation('C19.copy', f'series of a list attribute that is empty at first and filled in place later: the entry for '
                        f'{keep[k]} reads {str(ps.data[pr[4]][k] if k < len(ps.data[pr[4]]) else None)[:60]}, the list was '
                        f'{str(expe[k])[:60]} at that moment')
    if len(ps.data[pr[1]]) != len(keep):
        raise Violation('C19.alignment', f'list-probe series has {len(ps.data[pr[1]])} entries, time series {len(keep)}')
    for x, lst in zip(keep, ps.data[pr[1]]):
        if lst != list(range(0, w_at(x) + 1)):
            raise Violation('C19.copy', f'the value stored for the list probe at {x} is {lst[-4:]} (len {len(lst)}); at that '
                            f'moment the probed list ended with {w_at(x)} (len {w_at(x) + 1}): not a copy of the value then')
    if ps.data[pr[2]] != ps.data[pr[1]]:
        raise Violation('C19.copy', f'the attribute probe on a list attribute stored {str(ps.data[pr[2]][-1:])[:80]}, the '
                        f'function probe on the same list stored {str(ps.data[pr[1]][-1:])[:80]} (a later in-place change of '
                        f'the probed list leaked into the stored measurement)')
    for (got, then) in kept:
        if got != then:
            raise Violation('C19.callback-args', f'the list of values handed to an on-sense callback was changed afterwards: '
                            f'it was {str(then)[:80]} at the call and reads {str(got)[:80]} now')
    exp_cb = [(i, t_) for t_ in times for i in range(case['ncb'])]
    if [(x[0], x[2]) for x in cb] != exp_cb:
        raise Violation('C19.callbacks', f'on-sense callbacks (index, time) {[(x[0], x[2]) for x in cb][:6]} expected '
                        f'{exp_cb[:6]}')
    for (i, se, t_, d, now) in cb:
        if se is not ps or t_ != now or d != [w_at(t_), list(range(0, w_at(t_) + 1)), list(range(0, w_at(t_) + 1)), u_at(t_), e_at(t_)]:
            raise Violation('C19.callback-args', f'on-sense callback {i} at {now} got (sensor ok={se is ps}, time {t_}, '
                            f'values {str(d)[:60]})')
    # ---- output part sensor: first finished part, then every (n+1)-th
    prod = s.simulation_data.get('produced_part', {}).get('P', [])
    sel = [r for i, r in enumerate(prod) if i % (n + 1) == 0]
    keepo = sel if cap == INF else sel[-cap:]
    op = os_.probes
    if os_.data[op[0]] != [r[2] for r in keepo]:
        raise Violation('C19.part-sensor', f'output-part sensor (sensing interval {n}) stored qualities '
                        f'{os_.data[op[0]][-5:]} ({len(os_.data[op[0]])}), expected those of finished parts number '
                        f'1, {n + 2}, {2 * n + 3}, ...: {[r[2] for r in keepo][-5:]} ({len(keepo)})')
    if len(os_.data[op[1]]) != len(keepo):
        raise Violation('C19.alignment', 'output-part sensor series are not aligned')
    if [(x[1]) for x in ocb] != [r[0] for r in sel]:
        raise Violation('C19.part-sensor', f'output-part sensor measured at {[x[1] for x in ocb][:6]}, expected '
                        f'{[r[0] for r in sel][:6]}')
    # ---- cms: each registered sensor's measurements exactly once
    if 'ps' in case['cms'] and [x[1] for x in cm if x[0] == 'ps'] != times:
        raise Violation('C19.cms', f'cms received {len([x for x in cm if x[0] == "ps"])} periodic measurements, '
                        f'{len(times)} were taken')
    if 'ps' not in case['cms'] and [x for x in cm if x[0] == 'ps']:
        raise Violation('C19.cms', 'cms received measurements of a sensor that was never added')
    if case.get('twin_name') and 'ps' in case['cms']:
        tw = []
        t = t0
        while True:
            t = t + case['twin_name']
            if t > T:
                break
            tw.append(t)
        if [x[1] for x in cm if x[0] == 'twin'] != tw:
            raise Violation('C19.cms', f'cms received {len([x for x in cm if x[0] == "twin"])} measurements of a second '
                            f'registered sensor that has the same name as the first, {len(tw)} were taken')
    if c2 is not None and [x[1] for x in cm2] != times:
        raise Violation('C19.cms', f'a second cms registered for the same periodic sensor received {len(cm2)} measurements, '
                        f'{len(times)} were taken')
    since = [r[0] for r in sel if r[0] >= t0]       # the cms hears of measurements taken after the sensor was added
    if 'os' in case['cms'] and [x[1] for x in cm if x[0] == 'os'] != since:
        raise Violation('C19.cms', f'cms received {len([x for x in cm if x[0] == "os"])} part measurements, '
                        f'{len(since)} were taken since the sensor was added')
    return {'samples': len(times) + len(sel), 'periodic': len(times), 'parts': len(sel),
            'over_capacity': cap != INF and (len(times) > cap or len(sel) > cap)}
