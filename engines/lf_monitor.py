"""E3 part 2: the monitor wrapped around Environment.step of a generated model (DESIGN 2.8).

Oracle groups (switched on per property):
  head  C01  dispatch validity predicate on the real multi-device queue
  cons  C02  part census / slots / source budget
  wake  C03  counterfactual probe at quiescent instants + zero-time livelock watch
  buf   C05  buffer contract
  cycle C06  cycle times across interruptions (processors, handlers, sources, sinks)
  route C08  routing fidelity
  res   C11  processors vs pools
  acct  C13  shutdown/failure/restore state machine, uptime/utilisation accounting, callback order
  log   C15  recorded data mirrors occurrences
  value C16  value accounting
  batch C17  batcher order and sizes
"""
import copy
import math

from simprocesd.model.simulation import EventType
from simprocesd.model.factory_floor import (Batch, Source, Sink, PartHandler, PartProcessor, Buffer, PartBatcher,
                                             DecisionGate, PartFlowController, Maintainer)
from simprocesd.model.sensors import PeriodicSensor
from simprocesd.model.factory_floor.group import GroupPath
import simprocesd.model.simulation as simmod

from vlib.runner import PROGRESS, Violation, Inconclusive
from vlib.weights import Weights
from engines.lf_model import leaves, holdings, ready_part, part_index, INF, num

PASS_PART = int(EventType.PASS_PART)
EVENT_CAP = 40000
ZERO_TIME_CAP = 20000


def single_slot(d):
    return isinstance(d, PartHandler) and not isinstance(d, (Buffer, PartBatcher, Source))


def worth(item):
    """Value of a part, or of a batch as the sum over the parts in it (not the batch's own accessor)."""
    if isinstance(item, Batch):
        return sum(worth(q) for q in item.parts)
    return item.value


class GiveWrap:
    """Instance-level wrapper of a device's give_part (an object, not a closure: it survives a deep copy)."""

    def __init__(self, mon, dev, orig):
        self.mon, self.dev, self.orig = mon, dev, orig

    def __call__(self, part):
        r = self.orig(part)
        if r and not self.mon.probing:
            mon = self.mon
            mon.accepted[self.dev.name] = mon.accepted.get(self.dev.name, 0) + 1
            # who handed it over: the last holding device before this one in the item's own history
            hist = [x for x in part._routing_history[:-1] if isinstance(x, PartHandler)]
            if hist:
                g = hist[-1]
                if isinstance(g, Source):
                    mon.left_source[g.name] = mon.left_source.get(g.name, 0) + 1
                elif isinstance(g, PartProcessor):
                    mon.left_proc.setdefault(g.name, []).append(part.id)
        return r


class ProcRef:
    """Reference state machine of one PartProcessor, driven by observed callbacks (C06, C11, C13).
    Times are compared exactly on the dyadic grid (mon.tol == 0) and within mon.tol on decimal-time models."""

    def __init__(self, mon, P):
        self.mon = mon
        self.P = P
        self.up = True
        self.failed = False
        self.part = None
        self.uptime = 0
        self.util = 0
        self.elapsed = 0
        self.expected = None
        self.nfail = 0
        self.nsd = 0
        self.fin = None
        self.order = []
        self.accepts = 0
        self.maint_with_part = 0
        self.fail_with_part = 0
        self.changed_cycle = 0
        self.last_cycle = None
        ncb = 3
        P.add_shutdown_callback(self.sd)
        P.add_restored_callback(self.rs)
        for i in range(1, ncb):
            P.add_shutdown_callback(lambda m, f, p, i=i: self.order.append(('sd', i, mon.env.now, p)) if not mon.probing else None)
            P.add_restored_callback(lambda m, i=i: self.order.append(('rs', i, mon.env.now, None)) if not mon.probing else None)
        P.add_finish_processing_callback(self.fp)

    def bad(self, oracle, msg):
        self.mon.bad(oracle, msg)

    def sd(self, m, f, p):
        mon = self.mon
        if mon.probing:
            return
        now = mon.env.now
        self.order.append(('sd', 0, now, p))
        self.nsd += 1
        if not f:
            if not self.up:
                self.bad('C13.redundant-shutdown', f'{m.name}: shutdown callback at {now} although already down')
            if p is not None:
                self.bad('C13.lost-part', f'{m.name}: maintenance shutdown reported a lost part {p.name}')
            self.up = False
            if self.part is not None:
                self.maint_with_part += 1
        else:
            self.nfail += 1
            self.up = False
            self.failed = True
            if p is not self.part:
                self.bad('C13.lost-part', f'{m.name}: failure at {now} reported lost part '
                         f'{getattr(p, "name", None)} but the part in process was {getattr(self.part, "name", None)}')
            if p is not None:
                mon.lost.append((now, m.name, p))
                self.fail_with_part += 1
            self.part = None
        mon.occ.setdefault(('shutdown', m.name), []).append((now, f, p.id if p is not None else None))

    def rs(self, m):
        mon = self.mon
        if mon.probing:
            return
        self.order.append(('rs', 0, mon.env.now, None))
        if self.up:
            self.bad('C13.redundant-restore', f'{m.name}: restored callback at {mon.env.now} although operational')
        self.up = True
        self.failed = False

    def rc(self, m, p):
        mon = self.mon
        now = mon.env.now
        if not self.up:
            self.bad('C13.accept-while-down', f'{m.name} accepted {p.name} at {now} while shut down / failed')
        if self.part is not None:
            self.bad('C06.one-at-a-time', f'{m.name} accepted {p.name} at {now} while processing {self.part.name}')
        self.part = p
        self.accepts += 1
        self.elapsed = 0
        self.expected = max(0, m.cycle_time + mon.m.pending_offset.pop(m.name, 0))
        if self.last_cycle is not None and self.last_cycle != self.expected:
            self.changed_cycle += 1
        self.last_cycle = self.expected
        fin = self.fin
        if (fin is not None and fin[0] == now and fin[1] is not None and mon.minprio >= PASS_PART
                and self.nfail == fin[2] and self.nsd == fin[3] and m._resources_for_processing):
            mon.c['kept_reservation'] += 1
            if m._reserved_resources is not fin[1]:
                self.bad('C11.release-reacquire', f'{m.name} released and re-acquired its resources although the next '
                         f'part arrived at the same instant {now} (only hand-over events had run)')

    def fp(self, m, p):
        mon = self.mon
        if mon.probing:
            return
        now = mon.env.now
        mon.prod_cb.setdefault(m.name, []).append((now, p.id, p.quality, worth(p)))
        if p is not self.part:
            self.bad('C06.finished-wrong-part', f'{m.name} finished {p.name} at {now} but the part in process is '
                     f'{getattr(self.part, "name", None)}')
        if self.expected is not None and abs(self.elapsed - self.expected) > mon.tol:
            self.bad('C06.cycle', f'{m.name} finished {p.name} at {now} after {self.elapsed} of operational time, '
                     f'the cycle time in effect at acceptance was {self.expected}')
        if not self.up:
            self.bad('C13.release-while-down', f'{m.name} finished a part at {now} while down')
        self.part = None
        self.fin = (now, m._reserved_resources, self.nfail, self.nsd)

    def integrate(self, dt):
        if self.up:
            self.uptime += dt
            if self.part is not None:
                self.util += dt
                self.elapsed += dt

    def compare(self):
        P = self.P
        now = self.mon.env.now
        if 'acct' in self.mon.on:
            if P.is_operational() != self.up:
                self.bad('C13.state', f'{P.name} is_operational()={P.is_operational()} at {now}, reference says {self.up}')
            if abs(P.uptime - self.uptime) > self.mon.tol:
                self.bad('C13.uptime', f'{P.name} uptime {P.uptime} at {now}, operational time so far is {self.uptime}')
            if abs(P.utilization_time - self.util) > self.mon.tol:
                self.bad('C13.utilization', f'{P.name} utilization_time {P.utilization_time} at {now}, time spent '
                         f'processing so far is {self.util}')
            if (P._part is None) != (self.part is None) or (P._part is not None and P._part is not self.part):
                self.bad('C13.part', f'{P.name} holds {getattr(P._part, "name", None)} in process at {now}, '
                         f'reference {getattr(self.part, "name", None)}')
        if self.part is not None and P._part is None and 'acct' not in self.mon.on:
            # the part left processing without a finish callback: a loss named in the failure log ends the cycle
            recs = self.mon.env.simulation_data.get('device_failure', {}).get(P.name, [])
            if any(pid == self.part.id for (_, pid) in recs):
                self.part = None
        if 'cycle' in self.mon.on:
            if self.part is None and P._part is not None:
                self.bad('C06.ended-part-still-held', f'{P.name} still holds {P._part.name} in process at {now} although its '
                         f'processing ended (finished or lost by a failure)')
            if self.up and self.part is not None and self.elapsed > self.expected + self.mon.tol:
                self.bad('C06.late', f'{P.name} still processes {self.part.name} at {now} after {self.elapsed} of '
                         f'operational time, cycle time in effect was {self.expected}')

    def check_loss_report(self):
        mon = self.mon
        recs = mon.env.simulation_data.get('device_failure', {}).get(self.P.name, [])
        logged = [pid for (t, pid) in recs if pid is not None]
        told = [p.id for (t, nm, p) in mon.lost if nm == self.P.name]
        if logged != told:
            self.bad('C13.lost-part', f'{self.P.name}: failure log names lost part ids {logged} but the shutdown '
                     f'callbacks were told about {told} ({mon.env.now})')

    def check_order(self):
        """Callbacks of a kind run once per occurrence in registration order (0,1,2)."""
        o = self.order
        i = 0
        while i < len(o):
            grp = o[i:i + 3]
            if [g[1] for g in grp] != [0, 1, 2] or len({(g[0], g[2]) for g in grp}) != 1 \
                    or len({id(g[3]) for g in grp}) != 1:
                self.bad('C13.callback-order', f'{self.P.name}: callbacks (kind, registration index, time) '
                         f'{[(g[0], g[1], g[2]) for g in o[max(0, i - 3):i + 4]]} are not one run of 0,1,2 per occurrence')
                return
            i += 3
        del o[:]


class Monitor:
    def __init__(self, model, oracles):
        self.m = model
        self.on = set(oracles)
        self.env = model.env
        self.sys = model.sys
        self.spec = model.spec
        self.probing = False
        self.strict_ready = 'noise' in str(model.spec.get('profile', ''))
        # decimal-time models ('...-noisy'): accounting identities hold up to accumulated rounding only
        self.tol = 1e-9 if 'noisy' in str(model.spec.get('profile', '')) else 0
        self.devs = [d for d in model.D.values() if isinstance(d, PartFlowController)]
        self.events = 0
        self.zero_run = 0
        self.minprio = 99
        self.lost = []
        self.objs = {}
        self.occ = {}
        self.recv_cb = {}
        self.accepted = {}
        self.left_source = {}
        self.left_proc = {}
        self.prod_cb = {}
        self.c = {'events': 0, 'advances': 0, 'probes': 0, 'blocked_ready': 0, 'kept_reservation': 0,
                  'handovers_after_block': 0, 'contested': 0, 'prio_ties': 0, 'records': 0, 'trace_entries': 0}
        self.classes = set()
        self.refs = {}
        self.blocked_seen = {}      # part id -> device name where it sat ready-but-blocked at a quiescent instant
        self.unblock_causes = set()
        self.sink_next = {}
        self.hstate = {}            # plain handlers: name -> (part, accept time, expected)
        self.buf = {}               # buffer name -> {'fifo': [(part, arrival)], 'released': n, 'full': bool, 'refused': n}
        self.bat = {}               # batcher name -> {'in': [ids], 'out': [ids]}
        self.src_last = {}          # source -> time of last departure (cycle start)
        self.src_cost = {}          # source -> expected cost (value at departure)
        self.src_pre = {}
        self.hist_len = {}
        self.idle = {}              # single-slot device -> [lo, hi, recv_event]
        self.prev_empty = {}
        self.exempt_idle = set()
        self.supplied_seen = {}
        self.trace_on = bool(self.spec.get('trace')) and 'log' in self.on
        self.dispatched = []
        self.tracing_now = True
        self._orig_step = self.env.step
        self.env.step = self.step
        self.req = {}
        if 'head' in self.on:
            # remember the priority every caller asked for: the order oracle must not read it back from the Event.
            # (bound methods only: the counterfactual probe deep-copies the system together with this monitor)
            self._orig_sched = self.env.schedule_event
            self.env.schedule_event = self.sched
        model.pre.append(self.on_recv_first)
        need_proc = self.on & {'cycle', 'res', 'acct', 'cons', 'log', 'value'}
        for d in self.devs:
            if isinstance(d, PartProcessor) and need_proc:
                self.refs[d.name] = ProcRef(self, d)
            if isinstance(d, PartHandler):
                d.add_receive_part_callback(self.on_recv)
                self.watch_acceptance(d)
            if isinstance(d, PartProcessor) and model.specs.get(d.name, {}).get('autoreset'):
                # registered last: the machine restores itself from inside its shutdown callback after a failure
                d.add_shutdown_callback(lambda m, f, p: m.restore_functionality() if (f and not self.probing) else None)
            if isinstance(d, Buffer):
                self.buf[d.name] = {'fifo': [], 'released': 0, 'full': False, 'refused': 0, 'batch': False}
            if isinstance(d, PartBatcher):
                self.bat[d.name] = {'in': [], 'out': [], 'split': 0, 'emitted': 0}
            if isinstance(d, Source):
                self.src_last[d.name] = 0
                self.src_cost[d.name] = 0
            if single_slot(d):
                self.idle[d.name] = [0, 0, -1]
                self.prev_empty[d.name] = True
                if isinstance(d, PartProcessor):
                    # a restore (also one issued between two runs, outside any event) restarts the latest admissible
                    # reading of "idle since"
                    d.add_restored_callback(self.on_restored)

    def watch_acceptance(self, d):
        # an occurrence source that does not depend on the device's own receive path: the hand-over call returned True
        if 'log' in self.on and not isinstance(d, Source) and not isinstance(getattr(d, 'give_part', None), GiveWrap):
            d.give_part = GiveWrap(self, d, d.give_part)

    GROUP = {'C01': 'head', 'C02': 'cons', 'C03': 'wake', 'C05': 'buf', 'C06': 'cycle', 'C08': 'route', 'C11': 'res',
             'C13': 'acct', 'C15': 'log', 'C16': 'value', 'C17': 'batch'}

    def bad(self, oracle, msg):
        if self.GROUP[oracle.split('.')[0]] in self.on:
            raise Violation(oracle, msg)

    # ------------------------------------------------------------------------------ receive callback
    def on_recv_first(self, dev, part):
        """Registered before every model callback: the part as it is at the moment of receipt."""
        if self.probing:
            return
        self.recv_cb.setdefault(dev.name, []).append((self.env.now, part.id, part.quality, worth(part)))
        self.objs[part.id] = part

    def on_recv(self, dev, part):
        if self.probing:
            return
        now = self.env.now
        name = dev.name
        if name in self.refs:
            self.refs[name].rc(dev, part)
        elif 'cycle' in self.on and single_slot(dev) and not isinstance(dev, Sink):
            exp = max(0, dev.cycle_time + self.m.pending_offset.pop(name, 0))
            self.hstate[name] = (part, now, exp)
        elif isinstance(dev, Sink):
            if 'log' in self.on:
                recs_ = self.env.simulation_data.get('received_part', {}).get(name, [])
                done_ = sum(len(leaves(p_)) for p_ in dev.collected_parts)
                if len(recs_) != len(dev.collected_parts) or dev.received_parts_count != done_:
                    self.bad('C15.sink-count', f'inside a receive callback of {name} at {now}: {len(recs_)} received_part '
                             f'record(s), {len(dev.collected_parts)} collected item(s), received_parts_count '
                             f'{dev.received_parts_count} for {done_} collected part(s)')
            # a sink accepts the next part no sooner than its cycle time (one-shot offsets included) after this one
            nxt = self.sink_next.get(name)
            if 'cycle' in self.on and nxt is not None and now < nxt[0] - self.tol:
                self.bad('C06.sink', f'{name} accepted {part.name} at {now}; it accepted the previous part at {nxt[1]} and its '
                         f'cycle time then was {nxt[0] - nxt[1]}')
            self.sink_next[name] = (now + max(0, dev.cycle_time + self.m.pending_offset.pop(name, 0)), now)
        for lf in leaves(part):
            if lf.id in self.blocked_seen:
                self.c['handovers_after_block'] += 1
                del self.blocked_seen[lf.id]
        if 'route' in self.on:
            self.route_on_recv(dev, part)
        if name in self.buf:
            b = self.buf[name]
            b['fifo'].append((part, now))
            if isinstance(part, Batch):
                b['batch'] = True
        if name in self.bat:
            self.bat[name]['in'] += [lf.id for lf in leaves(part)]
            if 'batch' in self.on:
                if dev._output is not None:
                    self.bad('C17.accept-while-output', f'{name} accepted {part.name} at {now} while '
                             f'{dev._output.name} is waiting to leave')
        # departures from a batcher: what the downstream device receives straight from it
        hist = (leaves(part) or [part])[0]._routing_history     # a batch made by a batcher has no history of its own
        if len(hist) >= 2:
            j = len(hist) - 2
            while j > 0 and not isinstance(hist[j], PartHandler):
                j -= 1
            giver = hist[j]
            gref = self.refs.get(getattr(giver, 'name', None))
            if gref is not None and 'acct' in self.on and not gref.up and isinstance(giver, PartProcessor):
                self.bad('C13.release-while-down', f'{giver.name} handed {part.name} to {name} at {now} while it is shut down / '
                         f'failed (a finished part leaves after restoration)')
            if giver.name in self.bat:
                rec = self.bat[giver.name]
                ids = [lf.id for lf in leaves(part)]
                rec['out'] += ids
                rec['emitted'] += 1
                if 'batch' in self.on:
                    # the size the model configured (not what the batcher reports about itself)
                    size = self.m.specs.get(giver.name, {}).get('size', giver.output_batch_size)
                    if size is None and isinstance(part, Batch) and False:
                        pass
                    if size is not None and (not isinstance(part, Batch) or len(part.parts) != size):
                        self.bad('C17.size', f'{giver.name} (batch size {size}) emitted {part.name} with '
                                 f'{len(leaves(part))} part(s) at {now}')
                    if size is None and len(ids) != 1 and isinstance(part, Batch) and self.bat_input_is_flat(giver):
                        self.bad('C17.single', f'{giver.name} (single mode) emitted a batch of {len(ids)} at {now}')

    def on_restored(self, m):
        if self.probing:
            return
        rec = self.idle.get(m.name)
        if rec is not None and m._part is None and m._output is None:
            rec[1] = max(rec[1], self.env.now)

    def bat_input_is_flat(self, batcher):
        return True

    # ---------------------------------------------------------------------------------------- routing
    def route_on_recv(self, dev, part):
        now = self.env.now
        hist = part._routing_history
        if not hist or hist[-1] is not dev:
            self.bad('C08.history-tail', f'{part.name} accepted by {dev.name} at {now} but its routing history ends '
                     f'with {[getattr(x, "name", repr(x)) for x in hist[-2:]]}')
        if any(not isinstance(x, PartFlowController) for x in hist):
            self.bad('C08.history', f'the routing history of {part.name} contains entries that are not devices: '
                     f'{[getattr(x, "name", repr(x)) for x in hist]} (a caller edited the list that routing_history '
                     f'returned; that list must be a copy)')
        if dev.block_input:
            self.bad('C08.blocked-entry', f'{part.name} entered {dev.name} at {now} although its input is blocked')
        hist = (leaves(part) or [part])[0]._routing_history
        j = len(hist) - 2
        while j >= 0 and not isinstance(hist[j], PartHandler):
            x = hist[j]
            if x.block_input:
                self.bad('C08.blocked-entry', f'{part.name} passed {x.name} at {now} although its input is blocked')
            if isinstance(x, DecisionGate):
                sp = self.m.specs[x.name]
                ok = ((part.quality >= sp['q']) != sp['neg']) if 'q' in sp else ((part_index(part) % sp['mod'] == 0) != sp['neg'])
                self.c['gate_passes'] = self.c.get('gate_passes', 0) + 1
                if not ok:
                    self.bad('C08.gate', f'{part.name} (quality {part.quality}) passed gate {x.name} at {now} although '
                             f'its predicate rejects it')
            j -= 1
        # idle-longest among parallel single-slot devices
        self.exempt_idle |= self.m.rewired       # set_upstream documents a reset of the waiting time
        if dev.name in self.idle and dev.name not in self.exempt_idle:
            giver, sibs = self.idle_candidates(dev, part, hist, j)
            if sibs:
                me = self.idle[dev.name]
                my_lo = now if (me[2] == self.events or not self.prev_empty[dev.name]) else me[0]
                for y in sibs:
                    if y.name in self.exempt_idle:
                        continue
                    if y._part is not None or y._output is not None or not y.is_operational() or y.block_input:
                        continue
                    if not self.prev_empty[y.name] or self.idle[y.name][2] == self.events:
                        continue        # became empty during this very event: idle since now, a tie at best
                    need = getattr(y, '_resources_for_processing', None)
                    if need and getattr(y, '_reserved_resources', None) is None:
                        rm = self.env.resource_manager
                        if any(rm.get_resource_capacity(r) - rm.get_resource_usage(r) < v for r, v in need.items()):
                            continue
                    self.c['contested'] += 1
                    if my_lo > self.idle[y.name][1]:
                        self.bad('C08.idle-longest', f'{giver.name} handed {part.name} to {dev.name} (idle since '
                                 f'{my_lo}) at {now} although {y.name}, able to take it, has been idle since '
                                 f'{self.idle[y.name][1]} at the latest')
        self.idle.get(dev.name, [0, 0, 0])[2] = self.events

    def idle_candidates(self, dev, part, hist, j):
        """Who chose `dev` for this part, and which other single-slot devices competed on equal terms?
        Returns (chooser, siblings) or (None, []) when the situation is not one the oracle is sound for.
          A  a holding device whose direct downstreams are all single-slot devices;
          B  a group path the part has just left, whose downstreams are all single-slot devices;
          C  a holding device whose downstream branches are single-slot devices or LINEAR chains of pass-through
             devices (one downstream each) ending in one; a branch whose gate refuses this part does not compete."""
        from simprocesd.model.factory_floor.group import GroupOutput, GroupInput
        if j < 0:
            return None, []
        U = hist[j]
        # B: the device before was inside a group (its downstream is the group's output): the path chose
        if any(isinstance(x, GroupOutput) for x in U._downstream):
            for x in reversed(hist[:-1]):
                if isinstance(x, GroupPath) and any(y is dev for y in x._downstream):
                    sibs = [y for y in x._downstream if y is not dev]
                    if sibs and all(y.name in self.idle for y in sibs):
                        return x, sibs
                    return None, []
            return None, []
        between = hist[j + 1:-1]
        if any(len(x._downstream) != 1 or isinstance(x, (GroupPath, GroupInput, GroupOutput)) for x in between):
            return None, []
        sibs = []
        for c in U._downstream:
            hops = 0
            while True:
                if c is dev:
                    c = None
                    break
                if c.name in self.idle:
                    break
                if isinstance(c, (GroupPath, GroupInput, GroupOutput)) or not isinstance(c, PartFlowController) \
                        or isinstance(c, PartHandler) or len(c._downstream) != 1 or hops > 4:
                    return None, []          # not a linear pass-through chain: hierarchical choice, no flat oracle
                if c.block_input:
                    c = None
                    break
                if isinstance(c, DecisionGate):
                    sp = self.m.specs.get(c.name)
                    if sp is None:
                        return None, []
                    ok = ((part.quality >= sp['q']) != sp['neg']) if 'q' in sp else \
                        ((part_index(part) % sp['mod'] == 0) != sp['neg'])
                    if not ok:
                        c = None
                        break
                c = c._downstream[0]
                hops += 1
            if c is not None:
                sibs.append(c)
        return U, sibs

    # ------------------------------------------------------------------------------------------ step
    def step(self):
        env = self.env
        ev = env._events
        nxt = ev[0].time if ev else None
        if nxt is not None and nxt > env.now:
            self.quiescent()
            self.zero_run = 0
            self.minprio = 99
        dt = (nxt - env.now) if nxt is not None else 0
        if dt > 0:
            for r in self.refs.values():
                r.integrate(dt)
        if ev:
            self.minprio = min(self.minprio, ev[0].event_type)
        snap = list(ev) if 'head' in self.on else None
        if self.trace_on and self.tracing_now and ev:
            e0 = ev[0]
            act = e0.action
            nm = getattr(act, '__name__', None) or getattr(getattr(act, 'func', None), '__name__', None)
            self.dispatched.append((e0.time, e0.asset_id, nm, e0.message, float(e0.event_type), e0.cancelled))
        for s in self.src_last:
            o = self.m.D[s]._output
            self.src_pre[s] = (o, worth(o) if o is not None else None)
        now_before = env.now
        self._orig_step()
        PROGRESS[0] += 1
        self.events += 1
        self.c['events'] += 1
        self.zero_run += 1
        if self.zero_run > ZERO_TIME_CAP:
            if 'wake' in self.on:
                self.bad('C03.livelock', f'{ZERO_TIME_CAP} consecutive events executed at time {env.now} without the '
                         f'clock advancing (zero-time livelock: the run would never return)')
            raise Inconclusive('zero-time event storm')
        if self.events > EVENT_CAP:
            raise Inconclusive('event cap')
        if snap is not None:
            self.head_check(snap, now_before)
        self.post_event()

    def sched(self, time, asset_id, action, event_type=None, message=''):
        env = self.env
        before = {id(e) for e in env._events}
        if event_type is None:
            self._orig_sched(time, asset_id, action)
            return
        self._orig_sched(time, asset_id, action, event_type, message)
        for e in env._events:
            if id(e) not in before:
                self.req[id(e)] = (e, event_type, time)

    def prio_of(self, ev):
        r = self.req.get(id(ev))
        return r[1] if r is not None and r[0] is ev else ev.event_type

    def head_check(self, snap, now_before):
        env = self.env
        if env.now < now_before:
            self.bad('C01.clock', f'clock went backwards from {now_before} to {env.now}')
        after = {id(e) for e in env._events} | {id(e) for e in env._paused_events}
        removed = [e for e in snap if id(e) not in after]
        if len(removed) != 1:
            # an event may legitimately vanish only by being executed; failures cancel (do not remove)
            self.bad('C01.head-min', f'one step removed {len(removed)} events from the queue at {env.now}')
        x = removed[0]
        if x.cancelled:
            self.req.pop(id(x), None)
            return
        if x.time != env.now:
            self.bad('C01.clock', f'clock {env.now} differs from the time {x.time} of the executed event')
        rq = self.req.get(id(x))
        if rq is not None and rq[0] is x and x.paused_at is None and rq[2] != env.now:
            # never paused: it runs at the time it was scheduled for
            self.bad('C01.clock', f'an event scheduled for {rq[2]} and never paused ran at {env.now}')
        tie = False
        for e in snap:
            if e is x or e.cancelled:
                continue
            if e.time < x.time:
                self.bad('C01.head-min', f'dispatched an event due at {x.time} while a live event due at {e.time} '
                         f'was pending')
            pe, px = self.prio_of(e), self.prio_of(x)
            if e.time == x.time and pe != px:
                tie = True
                if pe > px:
                    self.bad('C01.head-min', f'at time {x.time} dispatched priority {float(px)} before '
                             f'pending priority {float(pe)}')
        if tie:
            self.c['prio_ties'] += 1
        self.req.pop(id(x), None)

    # ------------------------------------------------------------------------------ after each event
    def adopt_late_devices(self):
        for d in self.m.late_assets:
            if not any(d is x for x in self.devs):
                self.devs.append(d)
                if isinstance(d, PartProcessor) and self.on & {'cycle', 'res', 'acct', 'cons', 'log', 'value'}:
                    # reference state machine of a machine created while the simulation is under way: everything
                    # counts from its creation
                    self.refs[d.name] = ProcRef(self, d)
                if isinstance(d, Source):
                    # its first cycle starts when it is created
                    self.src_last[d.name] = self.env.now
                    self.src_cost[d.name] = 0
                    continue
                d.add_receive_part_callback(self.on_recv)
                self.watch_acceptance(d)
                if single_slot(d):
                    self.idle[d.name] = [self.env.now, self.env.now, -1]
                    self.prev_empty[d.name] = True
                    self.exempt_idle.add(d.name)

    def post_event(self):
        on = self.on
        now = self.env.now
        if self.m.late_assets:
            self.adopt_late_devices()
        for r in self.refs.values():
            r.compare()
            if 'acct' in on:
                if r.order:
                    r.check_order()
                r.check_loss_report()
        if 'acct' in on and self.m.wo_started:
            self.wo_down_check()
        if 'cons' in on:
            self.census()
        if 'res' in on:
            self.res_check()
        if 'buf' in on or 'log' in on:
            self.buffer_check()
        if 'log' in on:
            self.log_check()
        if 'value' in on:
            self.value_check()
        if 'cycle' in on:
            self.cycle_check(False)
        if 'batch' in on:
            self.batch_check()
        self.track_sources()
        if self.idle:
            self.track_idle()

    def track_sources(self):
        sd = self.env.simulation_data.get('supplied_new_part', {})
        now = self.env.now
        for s in self.src_last:
            n = len(sd.get(s, []))
            seen = self.supplied_seen.get(s, 0)
            if n > seen:
                self.supplied_seen[s] = n
                self.src_last[s] = now
                pre = self.src_pre.get(s)
                if n - seen == 1 and pre and pre[0] is not None and sd[s][-1][1] == pre[0].id:
                    self.src_cost[s] += pre[1]
                else:
                    self.src_cost[s] = None     # cannot attribute (several parts in one event): switch the check off

    def track_idle(self):
        now = self.env.now
        D = self.m.D
        for name, rec in self.idle.items():
            d = D[name]
            empty = d._part is None and d._output is None
            able = empty and d.is_operational() and not d.block_input
            was = self.prev_empty[name]
            if empty and (not was or rec[2] == self.events - 1):
                # became empty during this event (also: received and released a part within it, zero cycle)
                rec[0] = now
                rec[1] = now
            self.prev_empty[name] = empty
            # latest admissible reading: the last time it became able to take a part
            st = self.__dict__.setdefault('_able', {})
            if able and not st.get(name, True):
                rec[1] = max(rec[1], now)
            st[name] = able
        for nm in self.m.rewired:
            self.exempt_idle.add(nm)

    # --------------------------------------------------------------------------------------- census
    def census(self):
        env = self.env
        now = env.now
        loc = {}
        for d in self.devs:
            for p in holdings(d):
                if p.id in loc:
                    self.bad('C02.duplicate', f'part {p.name} is in two places at {now}: {loc[p.id]} and {d.name}')
                loc[p.id] = d.name
            if isinstance(d, PartHandler):
                for slot in (d._part, d._output):
                    if isinstance(slot, (list, tuple)):
                        self.bad('C02.slot', f'{d.name} holds a {type(slot).__name__} in a part slot at {now}')
                if not isinstance(d, (PartBatcher, Buffer)) and d._part is not None and d._output is not None:
                    self.bad('C02.slot', f'{d.name} holds {d._part.name} and {d._output.name} at the same time ({now})')
        for d in self.devs:
            if isinstance(d, Sink):
                n = 0
                for cp in d.collected_parts:
                    for p in leaves(cp):
                        n += 1
                        if p.id in loc:
                            self.bad('C02.duplicate', f'part {p.name} delivered to {d.name} is also at {loc[p.id]} ({now})')
                        loc[p.id] = 'sink:' + d.name
                if n != d.received_parts_count:
                    self.bad('C02.sink-count', f'{d.name} received_parts_count={d.received_parts_count} but it '
                             f'collected {n} parts ({now})')
        # losses: reported to the shutdown callbacks and/or named in the failure log (either counts as reported
        # for conservation; that both agree is part of C13)
        lost_objs = {}
        for (t, name, p) in self.lost:
            if p.id in lost_objs:
                self.bad('C02.duplicate', f'part {p.name} was reported lost twice ({now})')
            lost_objs[p.id] = (p, name)
        for nm, recs in env.simulation_data.get('device_failure', {}).items():
            seen_here = set()
            for (t, pid) in recs:
                if pid is None:
                    continue
                if pid in seen_here:
                    self.bad('C02.duplicate', f'part id {pid} is named twice in the failure log of {nm} ({now})')
                seen_here.add(pid)
                if pid not in lost_objs and pid in self.objs:
                    lost_objs[pid] = (self.objs[pid], nm)
        for pid, (p, name) in lost_objs.items():
            for q in leaves(p):
                if q.id in loc:
                    self.bad('C02.duplicate', f'part {q.name} reported lost by {name} is also at {loc[q.id]} ({now})')
                loc[q.id] = 'lost:' + name
        gen_ids = {p.id for p in self.m.generated}
        missing = [p for p in self.m.generated if p.id not in loc]
        if missing:
            self.bad('C02.vanished', f'part(s) {[p.name for p in missing]} are in no device, no sink and were not '
                     f'reported lost ({now})')
        extra = set(loc) - gen_ids
        if extra:
            self.bad('C02.invented', f'part ids {sorted(extra)} were never generated ({now})')
        for d in self.devs:
            if isinstance(d, Buffer):
                inside = sum(1 for p in holdings(d))
                if d.level() != inside:
                    self.bad('C02.buffer-count', f'{d.name} reports {d.level()} part(s) inside but holds {inside} ({now})')
            if isinstance(d, Source):
                B = self.m.budget[d.name]
                if d.produced_parts > B:
                    self.bad('C02.budget', f'{d.name} supplied {d.produced_parts} parts, budget is {B} ({now})')
                if d.remaining_parts != max(B - d.produced_parts, 0):
                    self.bad('C02.budget', f'{d.name} remaining_parts={d.remaining_parts}, budget {B} - supplied '
                             f'{d.produced_parts} ({now})')

    # ------------------------------------------------------------------------------------ resources
    def res_check(self):
        rm = self.env.resource_manager
        now = self.env.now
        tot = {}
        for d in self.devs:
            if not isinstance(d, PartProcessor):
                continue
            # what the model asked for when it built the machine (machines created later: as constructed)
            sp = self.m.specs.get(d.name)
            need = sp.get('res') if sp is not None and sp.get('k') == 'P' else d._resources_for_processing
            rr = d._reserved_resources
            if rr is not None:
                held = rr.reserved_resources
                for k, v in held.items():
                    tot[k] = tot.get(k, 0) + v
                if held != {k: v for k, v in (need or {}).items() if v > 0}:
                    self.bad('C11.exact', f'{d.name} holds {held} but declares {need} ({now})')
            if need and any(v > 0 for v in need.values()) and d._part is not None and rr is None:
                self.bad('C11.processing-without', f'{d.name} has {d._part.name} in process at {now} without holding '
                         f'its resources {need}')
            ref = self.refs.get(d.name)
            if ref is not None and ref.failed and rr is not None:
                self.bad('C11.failed-holds', f'{d.name} failed but still holds {rr.reserved_resources} ({now})')
        for r in self.spec.get('res', {}):
            if rm.get_resource_usage(r) != tot.get(r, 0):
                self.bad('C11.usage', f'usage of {r} is {rm.get_resource_usage(r)} but processors hold {tot.get(r, 0)} ({now})')

    # -------------------------------------------------------------------------------------- buffers
    def buffer_check(self):
        now = self.env.now
        sd = self.env.simulation_data
        for d in self.devs:
            if not isinstance(d, Buffer):
                continue
            b = self.buf[d.name]
            recs = sd.get('level', {}).get(d.name, [])
            last = recs[-1][1] if recs else 0
            content = sum(len(leaves(p)) for p in d.stored_parts) + len(leaves(d._part))
            if 'log' in self.on and last != d.level():
                self.bad('C15.level-record', f'{d.name} level() is {d.level()} but the last level record says {last} ({now})')
            if 'buf' not in self.on:
                continue
            if d.level() != content:
                self.bad('C05.level', f'{d.name} level() is {d.level()} but it stores {content} part(s) ({now})')
            cap = d.capacity
            sc = self.m.specs.get(d.name, {}).get('cap')
            if isinstance(sc, (int, float)):
                cap = min(cap, math.floor(sc))     # the capacity the buffer was created with (fractions count down)
            if content > cap:
                self.bad('C05.capacity', f'{d.name} stores {content} parts, it was created with capacity '
                         f'{sc if sc is not None else d.capacity} ({now})')
            if content == cap:
                b['full'] = True
            stored = d.stored_parts + ([d._part] if d._part is not None else [])
            fifo = b['fifo']
            # parts that left: must be a prefix of the arrival order
            k = len(fifo) - len(stored)
            if k < 0 or [id(x[0]) for x in fifo[k:]] != [id(p) for p in stored]:
                self.bad('C05.fifo', f'{d.name} stores {[p.name for p in stored]} but arrivals still expected inside '
                         f'are {[x[0].name for x in fifo]} (only the head may leave, arrivals only at the tail) ({now})')
            for (p, arr) in fifo[:k]:
                delay = d.minimum_delay
                slack = (now - arr) - delay
                if slack < 0:
                    from fractions import Fraction
                    exact = Fraction(now) - Fraction(arr) - Fraction(delay)
                    if exact < -2 * Fraction(math.ulp(now)):
                        self.bad('C05.delay', f'{d.name} released {p.name} at {now}, it arrived at {arr}; minimum delay '
                                 f'{delay}')
                b['released'] += 1
            del fifo[:k]

    # ------------------------------------------------------------------------------------- records
    def log_check(self):
        env = self.env
        now = env.now
        sd = env.simulation_data
        rm = env.resource_manager
        nrec = 0
        for d in self.devs:
            if isinstance(d, PartHandler):
                got = sd.get('received_part', {}).get(d.name, [])
                nrec += len(got)
                if got != self.recv_cb.get(d.name, []):
                    self.bad('C15.received', f'{d.name}: received_part records {got[-3:]} differ from the receive '
                             f'occurrences {self.recv_cb.get(d.name, [])[-3:]} ({now})')
                if not isinstance(d, Source) and len(got) != self.accepted.get(d.name, 0):
                    self.bad('C15.received', f'{d.name} accepted {self.accepted.get(d.name, 0)} hand-overs (give_part returned '
                             f'True) but has {len(got)} received_part records ({now})')
            if isinstance(d, PartProcessor):
                got = sd.get('produced_part', {}).get(d.name, [])
                nrec += len(got)
                if got != self.prod_cb.get(d.name, []):
                    self.bad('C15.produced', f'{d.name}: produced_part records {got[-3:]} differ from the finish '
                             f'occurrences {self.prod_cb.get(d.name, [])[-3:]} ({now})')
                ids = {r[1] for r in got}
                for pid in self.left_proc.get(d.name, []):
                    if pid not in ids:
                        self.bad('C15.produced', f'{d.name} handed part id {pid} downstream but has no produced_part '
                                 f'record for it ({now})')
                fails = [t for (t, f, _) in self.occ.get(('shutdown', d.name), []) if f]
                lost = [(t, pid) for (t, f, pid) in self.occ.get(('shutdown', d.name), []) if f and pid is not None]
                recs = sd.get('device_failure', {}).get(d.name, [])
                # a failure of a machine that is already failed is not an occurrence the statement describes:
                # records without a lost part are tolerated there, every observed failure needs its record
                times = [r[0] for r in recs]
                for t in fails:
                    if t in times:
                        times.remove(t)
                    else:
                        self.bad('C15.failure', f'{d.name}: failure at {t} has no device_failure record '
                                 f'(records at {[r[0] for r in recs]}) ({now})')
                for r in recs:
                    if r[0] > now:
                        self.bad('C15.stamp', f'device_failure record of {d.name} stamped {r[0]} > now {now}')
                for (t, pid) in lost:
                    if (t, pid) not in [tuple(r) for r in recs]:
                        self.bad('C15.failure', f'{d.name}: the failure at {t} lost part id {pid} but the device_failure '
                                 f'records are {recs} ({now})')
            if isinstance(d, Source):
                recs = sd.get('supplied_new_part', {}).get(d.name, [])
                nrec += len(recs)
                if len(recs) != d.produced_parts:
                    self.bad('C15.supplied', f'{d.name}.produced_parts={d.produced_parts} but {len(recs)} '
                             f'supplied_new_part records ({now})')
                if d.name in self.left_source and self.left_source[d.name] != len(recs) and not self.m.late_assets:
                    self.bad('C15.supplied', f'{self.left_source[d.name]} items of {d.name} were accepted by its downstream '
                             f'devices but it has {len(recs)} supplied_new_part records ({now})')
            if isinstance(d, Sink):
                tot = 0
                recs = sd.get('received_part', {}).get(d.name, [])
                if [p.id for p in d.collected_parts] != [r[1] for r in recs]:
                    self.bad('C15.sink-order', f'{d.name}: collected parts and received_part records disagree ({now})')
                tot = sum(len(leaves(p)) for p in d.collected_parts)
                if tot != d.received_parts_count:
                    self.bad('C15.sink-count', f'{d.name}.received_parts_count={d.received_parts_count} but its received '
                             f'records cover {tot} parts ({now})')
        # every part that left a source has exactly one supplied record: departures seen by the receive callbacks
        for r in self.spec.get('res', {}):
            recs = sd.get('resource_update', {}).get(r, [])
            nrec += len(recs)
            last = tuple(recs[-1][1:]) if recs else (0, 0)
            cur = (rm.get_resource_usage(r), rm.get_resource_capacity(r))
            if last != cur:
                self.bad('C15.resource-record', f'last resource_update of {r} says (usage, capacity) {last}, the pool '
                         f'says {cur} ({now})')
            if recs and recs[-1][0] > now:
                self.bad('C15.stamp', f'resource_update of {r} stamped {recs[-1][0]} > now {now}')
        # work-order records vs hook occurrences
        mname = self.m.maint.name
        st = sd.get('start_work_order', {}).get(mname, [])
        fi = sd.get('finish_work_order', {}).get(mname, [])
        if [(r[0], r[1]) for r in st] != [(t, n) for (t, n, _, _) in self.m.wo_started]:
            self.bad('C15.work-order', f'start_work_order records {[(r[0], r[1]) for r in st]} differ from the start '
                     f'hook occurrences {[(t, n) for (t, n, _, _) in self.m.wo_started]} ({now})')
        if [(r[0], r[1]) for r in fi] != list(self.m.wo_ended):
            self.bad('C15.work-order', f'finish_work_order records {[(r[0], r[1]) for r in fi]} differ from the end '
                     f'hook occurrences {self.m.wo_ended} ({now})')
        eq = sd.get('enter_queue', {}).get(mname, [])
        acc = [(a[0], a[2]) for a in self.m.action_log if a[1] == 'wo' and a[3]]
        if [(r[0], r[1]) for r in eq] != acc:
            self.bad('C15.work-order', f'enter_queue records {[(r[0], r[1]) for r in eq]} differ from the accepted '
                     f'requests {acc} ({now})')
        self.c['records'] = nrec + len(st) + len(fi) + len(eq)

    # --------------------------------------------------------------------------------------- values
    def value_check(self):
        now = self.env.now
        assets = list(self.sys._assets)

        def veq(a, b):
            # exact on the dyadic grid; for other amounts any rounding of a differently ordered sum is allowed, a lost
            # or rounded-away booking (>= 1e-7 in the generated models) is not
            return a == b or abs(a - b) <= 1e-9 * max(1, abs(a), abs(b))
        for a in list(self.m.D.values()) + [self.m.maint] + list(self.m.extras):
            if isinstance(a, (PartFlowController, type(self.m.maint), PeriodicSensor)) and not any(a is b for b in assets):
                self.bad('C16.net', f'{a.name} (value {a.value}) is not among the system\'s registered assets: the net value '
                         f'leaves it out ({now})')
        total = 0
        for a in assets:
            v = a.value
            total += v
            hist = a.value_history
            n0 = self.hist_len.get(id(a), 0)
            # the starting value is the one the harness passed to the constructor (0 for everything else)
            start = self.m.v0.get(id(a), 0 if isinstance(a, (PartFlowController, Maintainer, PeriodicSensor))
                                  else a._initial_value)
            run_ = start
            for i, h in enumerate(hist):
                run_ += h[2]
                if h[2] == 0:
                    self.bad('C16.zero-entry', f'{a.name}: value history entry {h} records a zero change')
                if not veq(h[3], run_):
                    self.bad('C16.running-total', f'{a.name}: value history entry {h} has running total {h[3]}, '
                             f'the sum so far is {run_}')
                if i >= n0 and h[1] != now:
                    self.bad('C16.entry-time', f'{a.name}: value history entry {h} written at {now} is stamped {h[1]}')
            self.hist_len[id(a)] = len(hist)
            if not veq(v, run_):
                self.bad('C16.value', f'{a.name}: value {v} != starting value {start} + changes = {run_} ({now})')
        if not veq(self.sys.get_net_value_of_assets(), total):
            self.bad('C16.net', f'get_net_value_of_assets()={self.sys.get_net_value_of_assets()} but registered assets '
                     f'are worth {total} ({now})')
        for d in self.devs:
            if isinstance(d, Source):
                exp = self.src_cost.get(d.name)
                if not veq(d.value, -d.cost_of_produced_parts):
                    self.bad('C16.source', f'{d.name}.value={d.value} but cost_of_produced_parts='
                             f'{d.cost_of_produced_parts} ({now})')
                if exp is not None and self.supplied_seen.get(d.name, 0) == d.produced_parts and not veq(d.value, -exp):
                    self.bad('C16.source', f'{d.name}.value={d.value} but the parts it supplied were worth {exp} when '
                             f'they left it ({now})')
            if isinstance(d, Sink):
                got = sum(r[3] for r in self.recv_cb.get(d.name, []))
                if not veq(d.value, d.value_of_received_parts) or not veq(d.value, got):
                    self.bad('C16.sink', f'{d.name}.value={d.value}, value_of_received_parts={d.value_of_received_parts}, '
                             f'parts were worth {got} at receipt ({now})')
            if isinstance(d, PartHandler):
                for slot in (d._part, d._output, getattr(d, '_in_progress_batch', None)):
                    if isinstance(slot, Batch) and not veq(slot.value, sum(leaf.value for leaf in leaves(slot))):
                        self.bad('C16.batch', f'batch {slot.name} is worth {slot.value}, its parts '
                                 f'{sum(leaf.value for leaf in leaves(slot))} ({now})')
        mt = self.m.maint
        exp = self.m.v0[id(mt)] - sum(c for (_, _, _, c) in self.m.wo_started)
        if not veq(mt.value, exp):
            self.bad('C16.maintainer', f'maintainer value {mt.value}; started orders cost '
                     f'{[c for (_, _, _, c) in self.m.wo_started]} ({now})')
        for x in self.m.extras:
            if not veq(x.value, self.m.v0[id(x)]):
                self.bad('C16.value', f'{x.name}: value {x.value}, it was created with {self.m.v0[id(x)]} and nothing '
                         f'was booked on it ({now})')

    # --------------------------------------------------------------------------------------- cycles
    def cycle_check(self, quiescent):
        now = self.env.now
        D = self.m.D
        for name, st in list(self.hstate.items()):
            part, a, exp = st
            d = D[name]
            if d._part is part:
                if now - a > exp + self.tol or (quiescent and self.tol == 0 and now - a >= exp):
                    self.bad('C06.late', f'{name} still holds {part.name} unfinished at {now}; accepted at {a} with '
                             f'cycle time {exp}')
            else:
                if abs((now - a) - exp) > self.tol:
                    self.bad('C06.cycle', f'{name} released {part.name} from processing at {now}; accepted at {a} with '
                             f'cycle time {exp}')
                del self.hstate[name]
        if quiescent:
            for s, last in self.src_last.items():
                d = D[s]
                c = d.cycle_time
                if d._output is None and now >= last + c + self.tol and now > 0:
                    self.bad('C06.source-late', f'{s} has no part ready at {now} although its cycle ({c}) started at {last}')
                if d._output is not None and now < last + c - self.tol:
                    self.bad('C06.source-early', f'{s} has a part ready at {now} although its cycle ({c}) started at {last}')

    # -------------------------------------------------------------------------------------- batcher
    def batch_check(self):
        D = self.m.D
        for name, rec in self.bat.items():
            d = D[name]
            inside = [lf.id for lf in leaves(d._output)] + [lf.id for lf in leaves(d._in_progress_batch)] \
                + [lf.id for lf in leaves(d._part)]
            if rec['out'] + inside != rec['in']:
                self.bad('C17.order', f'{name}: parts arrived {rec["in"]} but left {rec["out"]} with {inside} still '
                         f'inside (in order: waiting to leave, batch in progress, input left to unpack) ({self.env.now})')
            if d._output is not None and d.output_batch_size is not None and \
                    (not isinstance(d._output, Batch) or len(d._output.parts) != d.output_batch_size):
                self.bad('C17.size', f'{name} prepared output {d._output.name} with {len(leaves(d._output))} parts, '
                         f'batch size {d.output_batch_size}')
            if d._output is not None and d.output_batch_size is None and isinstance(d._output, Batch):
                self.bad('C17.single', f'{name} (single mode) prepared a batch as output')

    # ------------------------------------------------------------------------------------ quiescence
    def quiescent(self):
        on = self.on
        env = self.env
        now = env.now
        self.c['advances'] += 1
        if 'res' in on:
            for d in self.devs:
                if isinstance(d, PartProcessor) and d.is_operational() and d._part is None \
                        and d._reserved_resources is not None:
                    self.bad('C11.idle-holds', f'idle operational {d.name} holds {d._reserved_resources.reserved_resources} '
                             f'when time advances from {now}')
                if isinstance(d, PartProcessor) and not d.is_operational() and d._part is None \
                        and d._reserved_resources is not None:
                    # it finished its part (or never had one) and got no next one: the resources are given back; only
                    # a shutdown WITH a part in process keeps them
                    self.bad('C11.down-idle-holds', f'{d.name} is shut down with no part in process but holds '
                             f'{d._reserved_resources.reserved_resources} when time advances from {now}')
        if 'cycle' in on:
            self.cycle_check(True)
        if 'route' in on:
            self.route_check()
        if 'wake' in on:
            for d in self.devs:
                if isinstance(d, Source) and d._output is None and d.remaining_parts >= 1 and d.is_operational() \
                        and not any(e.asset_id == d.id and not e.cancelled for e in env._events) \
                        and not any(e.asset_id == d.id and not e.cancelled for e in env._paused_events):
                    self.bad('C03.source-dead', f'{d.name} has {d.remaining_parts} part(s) left to supply, holds none and has no '
                             f'event pending when time advances from {now}: it will never supply again')
        cands = []
        for d in self.devs:
            p = ready_part(d, env, self.strict_ready)
            if p is not None and leaves(p) and d.downstream:
                # the statement is about parts (an empty batch holds none) and about downstream neighbours (a device that
                # has none yet offers its part to nobody)
                cands.append((d, p))
        for d, p in cands:
            for lf in leaves(p):
                self.blocked_seen.setdefault(lf.id, d.name)
        if 'wake' not in on or not cands or self.c['probes'] > 250:
            return                               # probe budget per case: bounds the cost, never decides anything
        self.c['blocked_ready'] += len(cands)
        # keep the copy small: delivered parts and recorded data play no role in hand-over decisions
        saved_data = env.simulation_data
        saved_coll = {}
        env.simulation_data = {}
        for d in self.devs:
            if isinstance(d, Sink):
                saved_coll[d.name] = d.collected_parts
                d.collected_parts = []
        saved_gen = self.m.generated[:]
        del self.m.generated[:]
        saved_rand = simmod.random
        simmod.random = Weights('const', 0)
        self.probing = True
        try:
            for d, p in cands:
                memo = {}
                sysc = copy.deepcopy(self.sys, memo)
                dc = memo[id(d)]
                pc = ready_part(dc, sysc.env, self.strict_ready)
                self.c['probes'] += 1
                for dwn in dc.get_sorted_downstream_list():
                    if dwn.give_part(pc):
                        self.bad('C03.probe-accepted', f'lost wake-up: {d.name} holds ready part {p.name} and its '
                                 f'downstream {dwn.name} accepts it when offered, yet time advances from {now}')
        finally:
            self.probing = False
            simmod.random = saved_rand
            env.simulation_data = saved_data
            for d in self.devs:
                if isinstance(d, Sink):
                    d.collected_parts = saved_coll[d.name]
            self.m.generated[:] = saved_gen

    # ---------------------------------------------------------------------------- routing (histories)
    def route_graph(self):
        spec = self.spec
        alld = list(spec['devs']) + [d for g in spec.get('groups', []) for d in g['devs']]
        kind = {d['n']: d for d in alld}
        down = {}
        for d in alld:
            for u in d.get('up', []):
                down.setdefault(u, []).append(d['n'])
        for a in self.m.action_log:
            if a[1] == 'rewire_add':
                down.setdefault(a[3], []).append(a[2])
        for (frm, to) in spec.get('loops', []):
            down.setdefault(frm, []).append(to)
        for d in self.m.late_assets:
            kind[d.name] = self.m.specs[d.name]
            for u in self.m.specs[d.name]['up']:
                down.setdefault(u, []).append(d.name)
        G = {g['n']: g for g in spec.get('groups', [])}
        return kind, down, G

    def route_check(self, final=False):
        kind, down, G = self.route_graph()
        now = self.env.now

        def ins(g):
            return G[g].get('in') or [G[g]['devs'][0]['n']]

        def outs(g):
            return G[g].get('out') or [G[g]['devs'][-1]['n']]

        def succ(a, stack):
            res = []
            if kind[a]['k'] == 'GP':
                for b in ins(kind[a]['g']):
                    res.append((b, stack + [a]))
                return res
            for b in down.get(a, []):
                res.append((b, stack))
            cur = a
            st = list(stack)
            while st and cur in outs(kind[st[-1]]['g']):
                gp = st.pop()
                for b in down.get(gp, []):
                    res.append((b, list(st)))
                cur = gp
            return res

        holder = {}
        for d in self.devs:
            for p in holdings(d):
                holder[p.id] = d.name
        top = {}
        for d in self.devs:
            if isinstance(d, PartHandler) and not isinstance(d, Sink):
                cands = [d._part, d._output] + (list(d.stored_parts) if isinstance(d, Buffer) else [])
                for c_ in cands:
                    if isinstance(c_, Batch):
                        for lf in leaves(c_):
                            top[lf.id] = c_
        for p in self.m.generated:
            h = [x.name for x in p._routing_history]
            if not h or kind.get(h[0], {}).get('k') != 'S':
                self.bad('C08.history-start', f'routing history of {p.name} is {h}: it does not start with its source')
            stacks = [[]]
            for a, b in zip(h, h[1:]):
                nxt = []
                for st in stacks:
                    for (bb, st2) in succ(a, st):
                        if bb == b and st2 not in nxt:
                            nxt.append(st2)
                if not nxt:
                    self.bad('C08.route-edge', f'{p.name} went {a} -> {b}, which is not a configured connection for a '
                             f'part that entered groups through {stacks}; history {h} ({now})')
                stacks = nxt
            where = holder.get(p.id)
            if where is not None and h[-1] != where:
                self.bad('C08.history-tail', f'{p.name} is held by {where} but its routing history ends with {h[-3:]} '
                         f'(leftover of a refused hand-over or a gap) ({now})')
            owner = top.get(p.id, p)
            if p.id in top and top[p.id]._group_pathing == [] and p._group_pathing:
                owner = p
            real = [x.name for x in owner._group_pathing]
            if where is not None and kind[h[-1]]['k'] != 'GP' and real not in stacks:
                self.bad('C08.path-stack', f'{p.name} (held by {where}) carries the group-path stack {real} but its '
                         f'history {h} implies {stacks} ({now})')
        for d in self.devs:
            if isinstance(d, Sink):
                recs = self.recv_cb.get(d.name, [])
                if [p.id for p in d.collected_parts] != [r[1] for r in recs]:
                    self.bad('C08.collected-order', f'{d.name}.collected_parts {[p.name for p in d.collected_parts][-4:]} '
                             f'is not in arrival order ({now})')

    # ------------------------------------------------------------------------------------------ run
    def run(self):
        if self.trace_on:
            import os
            import tempfile
            home = tempfile.mkdtemp(prefix='verif-home-')
            os.makedirs(os.path.join(home, 'Downloads'))
            old_home = os.environ.get('HOME')
            os.environ['HOME'] = home
            try:
                # trace: True = every run is traced; a list = one flag per run (an untraced run after a traced one must
                # neither extend the trace nor rewrite the file)
                flags = self.spec['trace'] if isinstance(self.spec['trace'], list) else [True] * len(self.spec['T'])
                path = os.path.join(home, 'Downloads', f'{self.env.name}_trace.json')
                for i, d in enumerate(self.spec['T']):
                    self.tracing_now = bool(flags[i])
                    self.sys.simulate(d, trace=bool(flags[i]), print_summary=False)
                    for f in (self.m.between.get(i, []) if i < len(self.spec['T']) - 1 else []):
                        f()
                    self.adopt_late_devices()
                    if flags[i]:
                        self.trace_check(path)
                    elif not any(flags[:i]) and os.path.exists(path):
                        self.bad('C15.trace', f'simulate(trace=False) wrote a trace file')
                if any(flags):
                    self.trace_check(path)
            finally:
                if old_home is None:
                    del os.environ['HOME']
                else:
                    os.environ['HOME'] = old_home
                import shutil
                shutil.rmtree(home, ignore_errors=True)
        else:
            via_env = self.spec.get('via_env') or []
            for i, d in enumerate(self.spec['T']):
                t_start = self.env.now
                if i > 0 and i in via_env:
                    self.env.run(d)         # the environment is public: a stretch may be run on it directly
                else:
                    self.sys.simulate(d, print_summary=False)
                if 'head' in self.on and self.env.now != t_start + d:
                    self.bad('C01.run', f'simulate({d}) started at {t_start} ended with the clock at {self.env.now}, '
                             f'expected {t_start + d}')
                if 'head' in self.on:
                    due = [e for e in self.env._events if not e.cancelled and e.time <= t_start + d]
                    if due:
                        self.bad('C01.run', f'simulate({d}) from {t_start} returned but {len(due)} live event(s) due no later '
                                 f'than {t_start + d} did not run, e.g. one due at {due[0].time} ({due[0].message!r})')
                for f in (self.m.between.get(i, []) if i < len(self.spec['T']) - 1 else []):
                    f()
                self.adopt_late_devices()
        self.quiescent()
        if 'value' in self.on:
            from simprocesd.model import System
            before = self.sys.get_net_value_of_assets()
            younger = System()          # another model is started in the same process
            Maintainer('crew-of-the-next-model', value=-1234.5)
            after = self.sys.get_net_value_of_assets()
            if after != before:
                self.bad('C16.net', f'get_net_value_of_assets() of this system changed from {before} to {after} when another '
                         f'System (with an asset worth -1234.5) was created')
        if 'route' in self.on:
            self.route_check(True)
        if 'acct' in self.on:
            self.wo_check()
        return self

    def trace_check(self, path):
        import json
        import os
        if not os.path.exists(path):
            self.bad('C15.trace', f'simulate(trace=True) wrote no trace file {os.path.basename(path)}')
        with open(path) as f:
            raw = json.load(f)
        tr = [raw[k] for k in sorted(raw, key=int)]
        got = [(t['time'], t['asset_id'], t['action'], t['message'], float(t['event_type'])) for t in tr]
        disp = [d[:5] for d in self.dispatched]
        execd = [d[:5] for d in self.dispatched if not d[5]]

        def subseq(a, b):
            it = iter(b)
            return all(any(x == y for y in it) for x in a)
        if not subseq(execd, got):
            miss = next((x for x in execd if x not in got), execd[:1])
            self.bad('C15.trace', f'the exported trace ({len(got)} entries) does not list the {len(execd)} executed events '
                     f'in execution order; e.g. {miss}')
        if not subseq(got, disp):
            extra = next((x for x in got if x not in disp), got[:1])
            self.bad('C15.trace', f'the exported trace lists entries that were never dispatched, or out of order; e.g. {extra}')
        if got != execd:
            # "lists exactly the executed events": an event that was cancelled before its turn never executed
            k = next((i for i in range(min(len(got), len(execd))) if got[i] != execd[i]), min(len(got), len(execd)))
            self.bad('C15.trace-exact', f'the exported trace has {len(got)} entries but {len(execd)} events were executed; '
                     f'first difference at position {k}: trace lists {got[k] if k < len(got) else None} '
                     f'(a cancelled event that never ran)')
        self.c['trace_entries'] = len(got)

    def wo_down_check(self):
        """While a default work order is in progress (start hook seen, end hook not yet) its target is shut down - unless the
        harness itself restored the machine in the meantime (restore / end of a maintenance action / auto-reset)."""
        now = self.env.now
        ended = {}
        for (t, name) in self.m.wo_ended:
            ended[name] = ended.get(name, 0) + 1
        started = {}
        for (t, name, dur, cost) in self.m.wo_started:
            started.setdefault(name, []).append(t)
        for name, ts in started.items():
            active = ts[ended.get(name, 0):]
            if not active:
                continue
            t_s = active[0]
            P = self.m.D.get(name)
            if P is None or not P.is_operational():
                continue
            sp = self.m.specs.get(name, {})
            mine = [a[0] for a in self.m.action_log if a[1] == 'restore' and a[2] == name] + \
                   [a[0] + a[3] for a in self.m.action_log if a[1] == 'maint' and a[2] == name]
            if sp.get('autoreset') or any(t_s <= x <= now for x in mine):
                continue
            self.bad('C13.work-order-down', f'{name} is operational at {now} although a default work order on it has been in '
                     f'progress since {t_s} (orders started at {ts}, {ended.get(name, 0)} ended)')

    def wo_check(self):
        """A default work order keeps its target shut down for exactly the order's duration."""
        ends = list(self.m.wo_ended)
        for (t, name, dur, cost) in self.m.wo_started:
            exp = t + dur
            if exp <= self.env.now - self.tol:
                hit = [e for e in ends if e[1] == name and abs(e[0] - exp) <= self.tol]
                if not hit:
                    self.bad('C13.work-order-duration', f'work order on {name} started at {t} with duration {dur} but '
                             f'its end hook ran at {[e[0] for e in ends if e[1] == name]}')
                ends.remove(hit[0])
