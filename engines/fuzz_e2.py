#!/venv/bin/python -B
"""Coverage-guided campaign (atheris / libFuzzer) on the resource pools: bytes -> the same operation alphabet the
Hypothesis strategies use -> rmmachine.run_pools with the reference-model oracle INSIDE the target. Additional,
thorough-tier only; a finding is written out as the usual JSON case and re-checked by the plain replay path.

usage: fuzz_e2.py <workdir> -runs=N -seed=S [corpus dir]"""
import json
import os
import sys

VERIF = os.path.dirname(os.path.dirname(os.path.abspath(__file__)))
sys.path[:0] = [os.environ.get('VERIF_REPO', '/repo'), VERIF, os.path.join(VERIF, '.deps')]
import atheris  # noqa: E402

with atheris.instrument_imports(include=['simprocesd']):
    import simprocesd.model.resource_manager  # noqa: F401
from engines import rmmachine  # noqa: E402
from vlib.runner import Violation  # noqa: E402

WORK = sys.argv[1]
NAMES = ['a', 'a', 'b', 'b', 'c', 'new', 'zzz']
AMT_POOL = [-2, -1, -1, 0, 1, 1, 2, 3, 5]
AMT_REQ = [-1, 0, 1, 1, 1, 2, 2, 3]
AMT_REL = [-1, 0, 1, 1, 2, 5]
STATS = {'execs': 0, 'nontrivial': 0, 'ops': 0, 'samples': []}


def decode(data):
    fdp = atheris.FuzzedDataProvider(data)
    ops = [['add', 'a', fdp.PickValueInList([1, 2, 3, 5])]]
    n = fdp.ConsumeIntInRange(1, 40)
    for _ in range(n):
        if fdp.remaining_bytes() == 0:
            break
        k = fdp.ConsumeIntInRange(0, 7)
        if k <= 1:
            ops.append(['add', fdp.PickValueInList(NAMES), fdp.PickValueInList(AMT_POOL)])
        elif k <= 4:
            req = {}
            for _ in range(fdp.ConsumeIntInRange(1, 3)):
                req[fdp.PickValueInList(NAMES)] = fdp.PickValueInList(AMT_REQ)
            ops.append(['reserve', req])
        elif k <= 6:
            if fdp.ConsumeBool():
                what = None
            else:
                what = {}
                for _ in range(fdp.ConsumeIntInRange(0, 3)):
                    what[fdp.PickValueInList(NAMES)] = fdp.PickValueInList(AMT_REL)
            ops.append(['release', fdp.ConsumeIntInRange(0, 5), what])
        else:
            ops.append(['merge', fdp.ConsumeIntInRange(0, 5), fdp.ConsumeIntInRange(0, 5)])
    return {'ops': ops}


def one_input(data):
    case = decode(data)
    STATS['execs'] += 1
    try:
        p = rmmachine.run_pools(case)          # fresh Environment/ResourceManager every iteration
    except Violation as v:
        with open(os.path.join(WORK, 'finding.json'), 'w') as f:
            json.dump({'case': case, 'oracle': v.oracle, 'message': v.msg}, f)
        raise
    STATS['ops'] += p.c['ops']
    if p.c['multi_failed_after_success'] > 0:
        STATS['nontrivial'] += 1
        if len(STATS['samples']) < 2:
            STATS['samples'].append(case)
    if STATS['execs'] % 500 == 0:
        with open(os.path.join(WORK, 'stats.json'), 'w') as f:
            json.dump(STATS, f)


if __name__ == '__main__':
    atheris.Setup([sys.argv[0]] + sys.argv[2:], one_input)
    atheris.Fuzz()
