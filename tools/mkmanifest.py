#!/venv/bin/python
"""Regenerate /verif/MANIFEST.json from the table below and validate it against the schema.
A property is claimed only if props/<id>.py exists; everything else is listed under not_applicable."""
import json
import os
import sys

VERIF = os.path.dirname(os.path.dirname(os.path.abspath(__file__)))

T = {
 'C01': dict(engine='E1 envmachine + E3 linefuzz',
  technique='property-based testing: Hypothesis-generated operation histories (with programs run inside event actions) against a reference queue model and a dispatch validity predicate; same predicate on generated multi-device models',
  text='Generated search: each dispatch of thousands of generated histories is checked to be the minimum-time / maximum-priority live event, run(d) semantics and at-most-once against a reference model. Sampling, not proof; reach is documented by measured class counts (priority ties decided, insertions from inside actions, fractional ties).',
  note='Trusts that Environment._events/_paused_events are the pending/paused sets (anchors). Tie-break weights are scripted by replacing simulation.random.', ref='4 C01'),
 'C07': dict(engine='E1 envmachine',
  technique='complete enumeration of operation sequences over an 11-letter alphabet (length 5 quick / 6 thorough) plus Hypothesis-generated histories, both against a lock-step reference model',
  text='Exhaustive for the stated alphabet and length (every sequence, oracle after every operation), plus generated long sequences with nested programs; exact comparison of pending (time,event) pairs, paused set and execution clock with the reference model.',
  note='Dyadic time grid so that original + (now - paused_at) is exact; reads Environment._events/_paused_events.', ref='4 C07'),
 'C09': dict(engine='E2 rmmachine',
  technique='complete enumeration of pool-operation sequences over a 16-letter alphabet plus Hypothesis-generated sequences, against a reference pool model and the raised-implies-unchanged invariant',
  text='Exhaustive for the stated alphabet/length; generated sequences for the long tail. After every operation all observables (usage, capacity, every holding, record count) are compared with the model; an operation that raises must leave every observable unchanged.',
  note='Observation through the public getters and ReservedResources.reserved_resources only; which exception type is raised is not checked.', ref='4 C09'),
 'C10': dict(engine='E2 rmmachine',
  technique='Hypothesis-generated scripts of registrations/reservations/releases/capacity changes issued from outside and from inside callbacks, against a reference waiting-list model plus model-independent invariants',
  text='Generated search over scripts with >=3 waiters on overlapping resources; exact callback log comparison where the statement fixes the order, per-instant set comparison otherwise; invariants (at most once, fits at invocation, nobody feasible waits when time advances) always.',
  note='Availability-check scheduling discipline taken from the statement; callbacks enforce at-most-once inside the harness so a re-entrant loop becomes a violation, not a hang.', ref='4 C10'),
}
T['C04'] = dict(engine='E4 serial',
  technique='property-based testing: Hypothesis-generated serial lines compared exactly with an independent max-plus reference recurrence; documented example counts as fixed cases',
  text='Generated search: every received_part time list of every station and the sink is compared exactly with the blocking-after-service recurrence written from the statement, for generated station kinds, cycle times, delays, capacities, budgets, horizons and tie-break policies; SingleProcessor (99) and BufferExample (10079) are fixed cases.',
  note='Constant parameters on the dyadic grid; the reference is independent of the code under test; 50000 events without clock progress is reported as the line never reaching its horizon.', ref='4 C04')

T['C12'] = dict(engine='E5 maint', technique='property-based testing: Hypothesis-generated request streams (incl. requests issued from inside start/end hooks) on a real Maintainer, trace-validated against a reference acceptor',
  text='Generated search; the reference acceptor (request order, skip what does not fit or whose target is busy) is fed with the observed occurrence stream and predicts create_work_order return values, the started set, available capacity after every event, exact end times, hooks once, cost once, nothing startable left waiting at quiescent instants.',
  note='Trusted base: the documented scanning discipline (scan on request and on completion); starts within one instant compared as a set.', ref='4 C12')
T['C18'] = dict(engine='E6 sched', technique='property-based testing: Hypothesis-generated timetables and registration histories against an independent timetable evaluator',
  text='Generated search; current_state sampled every 1/4 time unit, schedule_update records and the full invocation log (kind, object, time argument, state, clock) compared exactly with the evaluator (prefix sums, modulo the period, last state forever; registration list semantics).',
  note='Registration changes at one instant get distinct priorities different from the transition priority.', ref='4 C18')
T['C19'] = dict(engine='E7 sensors', technique='property-based testing: Hypothesis-generated sensor set-ups on a real line against a sampling-schedule reference',
  text='Generated search; periodic sample times by the same left fold of the interval (also non-dyadic), part-sensor selection 1, n+2, 2n+3, copies of probed values, callback order and arguments, capacity trimming and alignment of every series incl. time, Cms delivery exactly once.',
  note='The probed attribute changes by events of higher priority than SENSOR so the expected value at a sample time is well defined.', ref='4 C19')
T['C20'] = dict(engine='E8 lifecycle', technique='property-based testing: Hypothesis-generated lifecycle programs with two metamorphic twin relations (late-created vs created before the start)',
  text='Generated search; registration with the latest system only, immediate initialisation of late-created assets, RuntimeError for older systems, find_assets vs list comprehension for 400 filter combinations, and the twin relations: a sub-model of every asset kind created inside an event at T equals (shifted by -T) the same sub-model created before the start; a device created at T downstream of a handler holding a blocked part equals the same line created before the start with its input blocked until T.',
  note='Ids excluded from comparisons; tie-break policies fifo/lifo/const; scheduler objects registered by an event right after creation in both twins.', ref='4 C20')

T['C14'] = dict(engine='E9 repro', technique='property-based testing: metamorphic relations on Hypothesis-generated picklable models (same seed twice with id offset; split vs single run with tie-break stream held fixed; simulate_multiple_times in-process vs worker processes)',
  text='Generated search over three metamorphic relations with normalised part ids: same seed => identical data/state independent of the id counter; simulate(a);simulate(b) == simulate(a+b) with the tie-break choices held fixed; simulate_multiple_times returns one system per index in order, identical in-process, in 1/2/5/default worker processes and to a direct call.',
  note='Models use only picklable pieces and never look at asset ids; default names carrying ids (Batch_<id>) are normalised; workers are forked.', ref='4 C14')


def e3(text, note, ref, tech):
    return dict(engine='E3 linefuzz', technique='property-based testing: Hypothesis-generated whole production models run through the real event queue under a step monitor; ' + tech,
                text=text, note=note, ref=ref)


T.update({
 'C02': e3('Generated search over whole models with an always-on census after every executed event (every generated leaf part exactly once in devices / sinks / reported losses, slots, budget).',
           'Part locations read from the private slots named by the anchors; losses = shutdown-callback reports and failure-log entries.', '4 C02', 'oracle = whole-system part census (invariant over the history)'),
 'C03': e3('Generated search with a counterfactual probe at every quiescent instant: each ready part is offered to its downstreams on a deep copy of the whole System; zero-time livelock watch (20000 events without clock progress) and per-case watchdog for the "run returns" clause.',
           'Liveness is decided as bounded safety; the probe assumes copy.deepcopy(System) behaves like the original; harness callbacks are inert during probes.', '4 C03', 'oracle = counterfactual probe on a deep copy + livelock/watchdog bound'),
 'C05': e3('Generated search, buffer-heavy and float-noise profiles; per buffer after every event: level == stored leaves <= capacity, FIFO prefix/suffix evolution, leave - arrive >= delay (exact on the grid, 2 ulp in Fraction arithmetic off the grid).',
           'Reads Buffer._buffer/_part; tolerance 2 ulp(clock) calibrated in DESIGN 4 C05.', '4 C05', 'oracle = per-buffer invariants over the history'),
 'C06': e3('Generated search with interruptions (shutdowns, failures also while shut down, work orders, cycle-time changes in callbacks, one-shot offsets); a reference integrates operational time per device and demands finish exactly at the cycle time in effect at acceptance.',
           'Operational intervals are taken from the shutdown/restored callbacks; exact on the dyadic grid.', '4 C06', 'oracle = reference operational-time integrator'),
 'C08': e3('Generated search over fan-out/fan-in, complementary gates, shared / re-entrant / chained / nested groups, block toggles, rewiring; route graph from the spec vs each part routing history, path stack, gate predicates, blocked inputs, collected order, idle-longest with admissible intervals.',
           'Idle-longest is only alarmed when the receiver is younger than an able sibling under every admissible reading of idle-since.', '4 C08', 'oracle = route graph derived from the spec + validity predicates'),
 'C11': e3('Generated contention models (2-5 processors over 1-3 pools with capacity 0..2, capacity schedules, failures, work orders); after every event holdings == declared amounts while processing, pool usage == sum of holdings, failed/idle processors hold nothing, kept reservation on back-to-back parts.',
           'Only processors reserve in these models; reads PartProcessor._reserved_resources.', '4 C11', 'oracle = per-event invariants on processors and pools'),
 'C13': e3('Generated interruption models; reference state machine per processor driven by observed callbacks; exact uptime / utilisation accounting after every event; lost part reported once to every shutdown callback and the failure log; callback registration order; default work order duration.',
           'Three callbacks of each kind are registered by the harness; exact on the dyadic grid.', '4 C13', 'oracle = reference state machine + accounting integrator'),
 'C15': e3('Generated models (a quarter with trace=True); after every event last level/resource records equal the state, one record per receive/finish/supply/failure/work-order occurrence with the values read by the monitor at that moment; exported trace satisfies executed <= trace <= dispatched.',
           'Occurrences are observed through library callbacks and a first-position receive callback; HOME is pointed at a scratch directory for the trace file.', '4 C15', 'oracle = occurrence log kept by the monitor vs simulation_data'),
 'C16': e3('Generated models with value added in finish and receive callbacks, batches, work-order costs; after every event value == start + sum(history), entry fields, source/sink/maintainer/batch/net identities with independently read part values.',
           'Value at departure is read by the monitor before the hand-over event; values on the dyadic grid.', '4 C16', 'oracle = value identities over the history'),
 'C17': e3('Generated batching models (batch sources with mixed sizes incl. 0, chained batchers, un-batch/process/re-batch, gates, buffers, blocked consumers); arrival leaf sequence == departure sequence + leaves inside in order; exact batch sizes; no accept while an output waits.',
           'Departures are what the next holding device receives from the batcher (receive callbacks).', '4 C17', 'oracle = sequence equality (arrivals vs departures) per batcher'),
})

DEFAULT_NA = 'check not built yet in this session (planned, see DESIGN section 4); not claimed until it exists and is silent on the tree'


def main():
    props = [json.loads(l) for l in open(os.path.join(VERIF, 'properties.jsonl'))]
    checks, na = [], []
    for p in props:
        pid = p['id']
        have = os.path.exists(os.path.join(VERIF, 'props', pid.lower() + '.py')) and pid in T
        if not have:
            na.append({'property_id': pid, 'reason': DEFAULT_NA})
            continue
        t = T[pid]
        checks.append({
            'property_id': pid,
            'quick_cmd': f'./check {pid} --tier quick',
            'thorough_cmd': f'./check {pid} --tier thorough',
            'evidence_file': f'evidence/{pid}.json',
            'replay_cmd_template': f'./check {pid} --replay {{path}}',
            'engine': t['engine'],
            'level_claimed': {'category': 'exploration', 'text': t['text'], 'design_ref': 'DESIGN.md section ' + t['ref']},
            'level_note': t['note'],
            'technique': t['technique'],
        })
    man = {
        'version': 1,
        'setup_cmd': ('mkdir -p /verif/.deps; /venv/bin/python -c "import hypothesis" 2>/dev/null || /venv/bin/pip install --no-index '
                      '--find-links /opt/veriftools/wheels --target /verif/.deps hypothesis; '
                      'PYTHONPATH=/verif/.deps /venv/bin/python -c "import atheris" 2>/dev/null || /venv/bin/pip install --no-index '
                      '--find-links /opt/veriftools/wheels --target /verif/.deps atheris || true'),
        'hooks': {
            'guard': 'SIMPROCESD_VERIF',
            'enable': 'no source hooks are needed: checks import /repo/simprocesd directly (PYTHONPATH=/repo) and observe through '
                      'public API, library callbacks and an instance-level wrapper of Environment.step; ./check sets SIMPROCESD_VERIF=1 for form only',
            'baseline_off_cmd': 'cd /repo && /venv/bin/python -m pytest -ra -q -p no:cacheprovider --timeout=900 --continue-on-collection-errors',
            'source_commits': [],
            'add_only': True,
        },
        'engines': [
            {'name': 'E1 envmachine', 'path': 'engines/envmachine.py', 'serves_properties': ['C01', 'C07'],
             'kind_free_text': 'operation histories on a bare Environment vs reference queue model'},
            {'name': 'E2 rmmachine', 'path': 'engines/rmmachine.py', 'serves_properties': ['C09', 'C10'],
             'kind_free_text': 'operation histories on ResourceManager vs reference pool / waiting-list model'},
            {'name': 'E4 serial', 'path': 'engines/serial.py', 'serves_properties': ['C04'],
             'kind_free_text': 'serial lines vs max-plus reference recurrence'},
            {'name': 'E5 maint', 'path': 'engines/maint.py', 'serves_properties': ['C12'], 'kind_free_text': 'Maintainer vs reference acceptor'},
            {'name': 'E6 sched', 'path': 'engines/sched.py', 'serves_properties': ['C18'], 'kind_free_text': 'ActionScheduler vs timetable evaluator'},
            {'name': 'E7 sensors', 'path': 'engines/sensors.py', 'serves_properties': ['C19'], 'kind_free_text': 'sensors vs sampling schedule'},
            {'name': 'E8 lifecycle', 'path': 'engines/lifecycle.py', 'serves_properties': ['C20'], 'kind_free_text': 'late-created vs early-created twins'},
            {'name': 'E9 repro', 'path': 'engines/repro.py', 'serves_properties': ['C14'], 'kind_free_text': 'metamorphic reproducibility relations'},
            {'name': 'E3 linefuzz', 'path': 'engines/linefuzz.py', 'serves_properties': ['C02', 'C03', 'C05', 'C06', 'C08', 'C11', 'C13', 'C15', 'C16', 'C17'],
             'kind_free_text': 'generated whole production models + step monitor (engines/lf_model.py, lf_monitor.py, e3gen.py)'},
        ],
        'checks': checks,
        'not_applicable': na,
        'notes': 'Every check: exit 0 held / 1 VIOLATION / 2 harness error. VERIF_SEED selects the Hypothesis seeds; runs are pure functions of (tree, seed, tier).',
    }
    if not na:
        del man['not_applicable']
    path = os.path.join(VERIF, 'MANIFEST.json')
    json.dump(man, open(path, 'w'), indent=1)
    open(path, 'a').write('\n')
    try:
        import jsonschema
        jsonschema.validate(man, json.load(open('/root/.vp/MANIFEST.schema.json')))
        print('MANIFEST valid;', len(checks), 'checks,', len(na), 'not claimed')
    except ImportError:
        print('jsonschema not importable here; wrote MANIFEST with', len(checks), 'checks')


if __name__ == '__main__':
    main()
