#!/venv/bin/python
"""Regenerate /verif/MANIFEST.json from the table below and validate it against the schema.
A property is claimed only if props/<id>.py exists; everything else is listed under not_applicable."""
import json
import os
import sys

VERIF = os.path.dirname(os.path.dirname(os.path.abspath(__file__)))

T = {
 'C01': dict(engine='E1 envmachine + E3 linefuzz',
  technique='property-based testing: Hypothesis-generated operation histories (with programs run inside event actions) against a reference queue model and a dispatch validity predicate; same predicate on generated multi-device models',
  text='Generated search: each dispatch of thousands of generated histories is checked to be the minimum-time / maximum-priority live event, run(d) semantics and at-most-once against a reference model. Sampling, not proof; reach is documented by measured class counts (priority ties decided, insertions from inside actions, fractional ties).',
  note='Trusts that Environment._events/_paused_events are the pending/paused sets (anchors). Tie-break weights are scripted by replacing simulation.random.', ref='4 C01'),
 'C07': dict(engine='E1 envmachine',
  technique='complete enumeration of operation sequences over an 11-letter alphabet (length 5 quick / 6 thorough) plus Hypothesis-generated histories, both against a lock-step reference model',
  text='Exhaustive for the stated alphabet and length (every sequence, oracle after every operation), plus generated long sequences with nested programs; exact comparison of pending (time,event) pairs, paused set and execution clock with the reference model.',
  note='Dyadic time grid so that original + (now - paused_at) is exact; reads Environment._events/_paused_events.', ref='4 C07'),
 'C09': dict(engine='E2 rmmachine',
  technique='complete enumeration of pool-operation sequences over a 16-letter alphabet plus Hypothesis-generated sequences, against a reference pool model and the raised-implies-unchanged invariant',
  text='Exhaustive for the stated alphabet/length; generated sequences for the long tail. After every operation all observables (usage, capacity, every holding, record count) are compared with the model; an operation that raises must leave every observable unchanged.',
  note='Observation through the public getters and ReservedResources.reserved_resources only; which exception type is raised is not checked.', ref='4 C09'),
 'C10': dict(engine='E2 rmmachine',
  technique='Hypothesis-generated scripts of registrations/reservations/releases/capacity changes issued from outside and from inside callbacks, against a reference waiting-list model plus model-independent invariants',
  text='Generated search over scripts with >=3 waiters on overlapping resources; exact callback log comparison where the statement fixes the order, per-instant set comparison otherwise; invariants (at most once, fits at invocation, nobody feasible waits when time advances) always.',
  note='Availability-check scheduling discipline taken from the statement; callbacks enforce at-most-once inside the harness so a re-entrant loop becomes a violation, not a hang.', ref='4 C10'),
}

DEFAULT_NA = 'check not built yet in this session (planned, see DESIGN section 4); not claimed until it exists and is silent on the tree'


def main():
    props = [json.loads(l) for l in open(os.path.join(VERIF, 'properties.jsonl'))]
    checks, na = [], []
    for p in props:
        pid = p['id']
        have = os.path.exists(os.path.join(VERIF, 'props', pid.lower() + '.py')) and pid in T
        if not have:
            na.append({'property_id': pid, 'reason': DEFAULT_NA})
            continue
        t = T[pid]
        checks.append({
            'property_id': pid,
            'quick_cmd': f'./check {pid} --tier quick',
            'thorough_cmd': f'./check {pid} --tier thorough',
            'evidence_file': f'evidence/{pid}.json',
            'replay_cmd_template': f'./check {pid} --replay {{path}}',
            'engine': t['engine'],
            'level_claimed': {'category': 'exploration', 'text': t['text'], 'design_ref': 'DESIGN.md section ' + t['ref']},
            'level_note': t['note'],
            'technique': t['technique'],
        })
    man = {
        'version': 1,
        'setup_cmd': ('/venv/bin/python -c "import hypothesis" 2>/dev/null || /venv/bin/pip install --no-index '
                      '--find-links /opt/veriftools/wheels --target /verif/.deps hypothesis'),
        'hooks': {
            'guard': 'SIMPROCESD_VERIF',
            'enable': 'no source hooks are needed: checks import /repo/simprocesd directly (PYTHONPATH=/repo) and observe through '
                      'public API, library callbacks and an instance-level wrapper of Environment.step; ./check sets SIMPROCESD_VERIF=1 for form only',
            'baseline_off_cmd': 'cd /repo && /venv/bin/python -m pytest -ra -q -p no:cacheprovider --timeout=900 --continue-on-collection-errors',
            'source_commits': [],
            'add_only': True,
        },
        'engines': [
            {'name': 'E1 envmachine', 'path': 'engines/envmachine.py', 'serves_properties': ['C01', 'C07'],
             'kind_free_text': 'operation histories on a bare Environment vs reference queue model'},
            {'name': 'E2 rmmachine', 'path': 'engines/rmmachine.py', 'serves_properties': ['C09', 'C10'],
             'kind_free_text': 'operation histories on ResourceManager vs reference pool / waiting-list model'},
        ],
        'checks': checks,
        'not_applicable': na,
        'notes': 'Every check: exit 0 held / 1 VIOLATION / 2 harness error. VERIF_SEED selects the Hypothesis seeds; runs are pure functions of (tree, seed, tier).',
    }
    if not na:
        del man['not_applicable']
    path = os.path.join(VERIF, 'MANIFEST.json')
    json.dump(man, open(path, 'w'), indent=1)
    open(path, 'a').write('\n')
    try:
        import jsonschema
        jsonschema.validate(man, json.load(open('/root/.vp/MANIFEST.schema.json')))
        print('MANIFEST valid;', len(checks), 'checks,', len(na), 'not claimed')
    except ImportError:
        print('jsonschema not importable here; wrote MANIFEST with', len(checks), 'checks')


if __name__ == '__main__':
    main()
