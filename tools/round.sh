#!/bin/bash
# tools/round.sh [PROP ...]: import every finished sub-agent output under /tmp/wt/<PROP>/out/<n>/ as the next free
# seeded/<PROP>-<k>, keep PREEXISTING reports under /tmp/reports, remove the worktree, then run the new seeds against the
# check of their own property (3 at a time).
cd "$(dirname "$0")/.."
props=${@:-$(ls /tmp/wt | grep '^C[0-9][0-9]$')}
mkdir -p /tmp/reports
new=""
for p in $props; do
  [ -d /tmp/wt/$p/out ] || continue
  for f in PREEXISTING.md preexisting_demo.py; do [ -f /tmp/wt/$p/out/$f ] && cp /tmp/wt/$p/out/$f /tmp/reports/$p-$f; done
  for n in 1 2 3 4; do
    d=/tmp/wt/$p/out/$n; [ -f $d/patch.diff ] || continue
    k=1; while [ -d seeded/$p-$k ]; do k=$((k+1)); done
    if tools/seed.py import $d $p-$k 2>&1 | tail -1 | grep -q "confirmed and stored"; then new="$new $p-$k"; echo "imported $p-$k"; else echo "REJECTED $p out/$n"; tools/seed.py import $d $p-$k 2>&1 | tail -3; rm -rf seeded/$p-$k; fi
  done
  git -C /repo worktree remove --force /tmp/wt/$p 2>/dev/null; rm -rf /tmp/wt/$p
done
echo "$new" | tr ' ' '\n' | grep . | xargs -P 3 -I{} sh -c 'tools/seed.py run {} 2>&1 | grep " vs "' | sort
