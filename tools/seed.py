#!/venv/bin/python
"""Seeded-change bookkeeping (sensitivity testing, DESIGN section 6).

  tools/seed.py import <dir-with-patch.diff+demo.py+meta.json> <seed-id>
        confirm in a scratch worktree of /repo: demo passes clean, patch applies, 150 tests pass with it,
        demo fails with it; then store as /verif/seeded/<seed-id>/ (meta.json extended with what was run)
  tools/seed.py run <seed-id> [PROP ...] [--tier quick]
        apply the stored patch to a scratch worktree of /repo's HEAD, run the given checks (default: the
        property the seed targets) with VERIF_REPO pointing at it, report exit codes; remove the worktree
  tools/seed.py matrix [--tier quick]
        run every stored seed against its own property's check; print the kill matrix
The scratch worktrees live under /tmp/seedwt and are removed immediately afterwards."""
import json
import os
import shutil
import subprocess
import sys
import time

VERIF = os.path.dirname(os.path.dirname(os.path.abspath(__file__)))
PY = '/venv/bin/python'
TESTS = [PY, '-m', 'pytest', '-q', '-p', 'no:cacheprovider', '--continue-on-collection-errors', 'simprocesd/tests']


def sh(cmd, cwd=None, env=None, timeout=1800):
    e = dict(os.environ)
    if env:
        e.update(env)
    p = subprocess.run(cmd, cwd=cwd, env=e, stdout=subprocess.PIPE, stderr=subprocess.STDOUT, text=True,
                       timeout=timeout)
    return p.returncode, p.stdout


class Worktree:
    def __init__(self, tag):
        import threading
        self.path = f'/tmp/seedwt/{tag}-{os.getpid()}-{threading.get_ident() % 100000}'

    def __enter__(self):
        os.makedirs('/tmp/seedwt', exist_ok=True)
        sh(['git', '-C', '/repo', 'worktree', 'prune'])
        rc, out = sh(['git', '-C', '/repo', 'worktree', 'add', '--detach', self.path, 'HEAD'])
        if rc:
            raise RuntimeError(out)
        return self.path

    def __exit__(self, *a):
        sh(['git', '-C', '/repo', 'worktree', 'remove', '--force', self.path])
        shutil.rmtree(self.path, ignore_errors=True)
        return False


def run_demo(wt, demo):
    return sh([PY, demo], cwd=wt, env={'PYTHONPATH': wt, 'PYTHONDONTWRITEBYTECODE': '1'}, timeout=300)


def cmd_import(src, sid):
    meta = json.load(open(os.path.join(src, 'meta.json')))
    patch = os.path.abspath(os.path.join(src, 'patch.diff'))
    demo = os.path.abspath(os.path.join(src, 'demo.py'))
    ran = {}
    with Worktree(sid) as wt:
        rc, out = run_demo(wt, demo)
        ran['demo_clean_exit'] = rc
        if rc != 0:
            print(f'{sid}: demo fails on the clean tree (exit {rc})\n{out[-800:]}')
            return 1
        rc, out = sh(['git', 'apply', patch], cwd=wt)
        if rc:
            print(f'{sid}: patch does not apply\n{out}')
            return 1
        rc, out = sh(TESTS, cwd=wt, env={'PYTHONDONTWRITEBYTECODE': '1'})
        tail = out.strip().splitlines()[-1] if out.strip() else ''
        ran['tests_with_patch'] = tail
        if '150 passed' not in tail or 'failed' in tail:
            print(f'{sid}: test suite does not pass with the patch: {tail}')
            return 1
        rc, out = run_demo(wt, demo)
        ran['demo_patched_exit'] = rc
        ran['demo_patched_output'] = out[-600:]
        if rc == 0:
            print(f'{sid}: demo does not fail with the patch')
            return 1
    dst = os.path.join(VERIF, 'seeded', sid)
    os.makedirs(dst, exist_ok=True)
    shutil.copy(patch, os.path.join(dst, 'patch.diff'))
    shutil.copy(demo, os.path.join(dst, 'demo.py'))
    meta['confirmed'] = ran
    meta['confirmed_how'] = ('scratch worktree of /repo HEAD: demo.py exit 0 clean; git apply patch.diff; pinned pytest '
                             'command -> 150 passed; demo.py exit != 0 with the patch; worktree removed')
    meta['base_commit'] = sh(['git', '-C', '/repo', 'rev-parse', 'HEAD'])[1].strip()
    json.dump(meta, open(os.path.join(dst, 'meta.json'), 'w'), indent=1)
    print(f'{sid}: confirmed and stored ({ran["tests_with_patch"]}; demo exit {ran["demo_patched_exit"]} with patch)')
    return 0


def cmd_run(sid, props, tier):
    d = os.path.join(VERIF, 'seeded', sid)
    meta = json.load(open(os.path.join(d, 'meta.json')))
    props = props or [meta['property']]
    res = {}
    with Worktree(sid) as wt:
        rc, out = sh(['git', 'apply', os.path.join(d, 'patch.diff')], cwd=wt)
        if rc:
            print(f'{sid}: patch does not apply to HEAD\n{out}')
            return {p: 'noapply' for p in props}
        for p in props:
            t0 = time.time()
            ev = os.path.join('/tmp/seedwt', f'ev-{sid}-{p}')
            rc, out = sh([os.path.join(VERIF, 'check'), p, '--tier', tier],
                         cwd=VERIF, env={'VERIF_REPO': wt, 'VERIF_EVIDENCE_DIR': ev, 'VERIF_NO_SAVE': '1'}, timeout=4 * 3600 + 600)
            shutil.rmtree(ev, ignore_errors=True)
            lines = [l for l in out.splitlines() if l.strip()]
            viol = [l for l in lines if l.startswith('VIOLATION')]
            why = lines[lines.index(viol[0]) - 1][:200] if viol and lines.index(viol[0]) > 0 else ''
            res[p] = {'exit': rc, 'wall_s': round(time.time() - t0, 1), 'why': why}
            print(f'{sid} vs {p} [{tier}]: exit {rc} in {res[p]["wall_s"]}s  {why}')
            if rc not in (0, 1):
                print(out[-1500:])
    return res


def main():
    a = sys.argv[1:]
    tier = 'quick'
    if '--tier' in a:
        i = a.index('--tier')
        tier = a[i + 1]
        del a[i:i + 2]
    if a[0] == 'import':
        sys.exit(cmd_import(a[1], a[2]))
    if a[0] == 'run':
        cmd_run(a[1], a[2:], tier)
    if a[0] == 'matrix':
        # tools/seed.py matrix [prefix ...] [--jobs N] : every stored seed against the check of its own property
        jobs = 1
        if '--jobs' in a:
            i = a.index('--jobs')
            jobs = int(a[i + 1])
            del a[i:i + 2]
        sids = [sid for sid in sorted(os.listdir(os.path.join(VERIF, 'seeded')))
                if os.path.isdir(os.path.join(VERIF, 'seeded', sid)) and (len(a) < 2 or sid.startswith(tuple(a[1:])))]
        out = {}
        if jobs > 1:
            from concurrent.futures import ThreadPoolExecutor
            with ThreadPoolExecutor(jobs) as ex:
                for sid, r in zip(sids, ex.map(lambda x: cmd_run(x, [], tier), sids)):
                    out[sid] = r
        else:
            for sid in sids:
                out[sid] = cmd_run(sid, [], tier)
        with open(os.path.join(VERIF, 'seeded', 'MATRIX.json'), 'w') as f:
            json.dump({'tier': tier, 'results': out}, f, indent=1)
        det = sum(1 for r in out.values() for v in r.values() if isinstance(v, dict) and v.get('exit') == 1)
        print(f'{det} of {len(out)} seeded changes detected by the check of their own property ({tier} tier)')


if __name__ == '__main__':
    main()
