#!/bin/bash
# tools/runall.sh [tier] [seed] : run every registered check (4 at a time), one line per check
tier=${1:-quick}; seed=${2:-1}
cd "$(dirname "$0")/.."
ids=$(python3 -c "import json; print(' '.join(c['property_id'] for c in json.load(open('MANIFEST.json'))['checks']))")
run() { id=$1; s=$(date +%s); out=$(VERIF_SEED=$seed ./check $id --tier $tier 2>&1); rc=$?; e=$(( $(date +%s) - s )); echo "$id rc=$rc ${e}s | $(echo "$out" | grep -v '^$' | tail -1 | cut -c1-170)"; }
export -f run; export tier seed
echo $ids | tr ' ' '\n' | xargs -P 4 -I{} bash -c 'run {}' | sort
