#!/venv/bin/python
"""tools/mut.py PROP[,PROP] file 'old' 'new' [--tier quick] [--notests]: one-off mutant in a scratch worktree."""
import os, sys, time
sys.path.insert(0, os.path.dirname(os.path.abspath(__file__)))
import seed as S

def main():
    a = sys.argv[1:]
    tier = 'quick'
    notests = '--notests' in a
    if notests: a.remove('--notests')
    if '--tier' in a:
        i = a.index('--tier'); tier = a[i + 1]; del a[i:i + 2]
    props, file, old, new = a[0].split(','), a[1], a[2], a[3]
    with S.Worktree('mut') as wt:
        p = os.path.join(wt, 'simprocesd/model', file)
        s = open(p).read()
        if s.count(old) < 1:
            print('PATTERN NOT FOUND'); return
        open(p, 'w').write(s.replace(old, new, 1))
        tests = ''
        if not notests:
            rc, out = S.sh(S.TESTS, cwd=wt, env={'PYTHONDONTWRITEBYTECODE': '1'})
            tests = out.strip().splitlines()[-1]
        for pr in props:
            t0 = time.time()
            rc, out = S.sh([os.path.join(S.VERIF, 'check'), pr, '--tier', tier], cwd=S.VERIF,
                           env={'VERIF_REPO': wt, 'VERIF_EVIDENCE_DIR': '/tmp/seedwt/ev-mut', 'VERIF_NO_SAVE': '1'}, timeout=3600)
            lines = [l for l in out.splitlines() if l.strip()]
            v = [i for i, l in enumerate(lines) if l.startswith('VIOLATION')]
            why = lines[v[0] - 1][:160] if v and v[0] > 0 else (lines[-1][:160] if lines else '')
            print(f'[{old[:30]!r}->{new[:30]!r}] tests: {tests} | {pr}: exit {rc} in {time.time()-t0:.0f}s | {why}')
main()
