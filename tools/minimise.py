#!/venv/bin/python
"""tools/minimise.py PROP replay.json out.json — shrink a failing case with the runner's greedy minimiser."""
import json, os, sys
V = os.path.dirname(os.path.dirname(os.path.abspath(__file__)))
sys.path[:0] = [os.environ.get('VERIF_REPO', '/repo'), V]
from vlib import runner
mod = runner.load('props.' + sys.argv[1].lower())
rec = json.load(open(sys.argv[2]))
ctx = {'tier': 'quick', 'phase': rec.get('phase'), 'excluded': set()}
try:
    runner.execute(mod, rec['case'], ctx, 60)
    print('case does not fail'); sys.exit(1)
except runner.Violation as v:
    oracle, msg = v.oracle, v.msg
small, m2 = runner.minimise(mod, rec['case'], oracle, ctx, budget_s=float(os.environ.get('BUDGET', '120')))
rec.update(case=small, oracle=oracle, message=m2 or msg)
json.dump(rec, open(sys.argv[3], 'w'), indent=1)
print(oracle, '|', rec['message'][:200]); print(json.dumps(small))
