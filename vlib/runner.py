"""Shared runner: tiers, seeds, sharding, search, minimisation, replay, evidence, known findings.

A property module (props/cNN.py) exposes

    ID            'C07'
    RULE          text for evidence.coverage.rule (how generated, what is non-trivial/distinct)
    ASSUMPTIONS   list of strings
    def phases(tier) -> [Phase, ...]
    def run_case(case, ctx) -> dict(nontrivial=bool, classes=[...], counters={...})   raises Violation
    SHAPES        {name: predicate(case)}  (optional; shape predicates for known findings)
    def candidates(case) -> iterable of smaller cases (optional; default structural)

A Phase is Search (Hypothesis strategy) or Enumerate (complete enumeration of a finite space).
Exit codes: 0 held / 1 violation / 2 harness error.
"""
import contextlib
import hashlib
import io
import json
import math
import multiprocessing
import os
import signal
import sys
import time
import traceback

VERIF = os.path.dirname(os.path.dirname(os.path.abspath(__file__)))
REPO = os.environ.get('VERIF_REPO', '/repo')


class Violation(Exception):
    """The code under test contradicts the property. oracle is a stable id like 'C09.raised-unchanged'."""

    def __init__(self, oracle, msg):
        super().__init__(f'{oracle}: {msg}')
        self.oracle = oracle
        self.msg = msg


class Inconclusive(Exception):
    """Case could not be decided within its size budget (never a violation)."""


class HarnessError(Exception):
    pass


class Watchdog(BaseException):
    pass


# ------------------------------------------------------------------------------------------ phases

class Search:
    kind = 'search'

    def __init__(self, name, strategy, examples, shards=1, tag=None):
        self.name = name
        self.strategy = strategy    # zero-arg callable returning a Hypothesis strategy
        self.examples = examples    # per shard
        self.shards = shards
        self.tag = tag              # passed to run_case through ctx['phase']


class Machine:
    """A Hypothesis RuleBasedStateMachine. factory(cap) returns the machine class; the machine appends every
    operation it performs to cap['ops'] (so the failing history is a plain replayable case) and reports each
    completed example through cap['done'](case, result)."""
    kind = 'machine'

    def __init__(self, name, factory, examples, steps, shards=1, tag=None):
        self.name = name
        self.factory = factory
        self.examples = examples
        self.steps = steps
        self.shards = shards
        self.tag = tag


class Fuzz:
    """A coverage-guided campaign (atheris/libFuzzer) run as a sub-process. It can only ADD violations: a finding is
    written out as a plain JSON case and confirmed through the normal replay path before it is reported."""
    kind = 'fuzz'

    def __init__(self, name, script, runs, shards=1, tag=None):
        self.name = name
        self.script = script        # path relative to /verif
        self.runs = runs
        self.shards = shards
        self.tag = tag


class Enumerate:
    kind = 'enum'

    def __init__(self, name, space, chunks, tag=None, describe=''):
        self.name = name
        self.space = space          # callable(chunk_index, n_chunks) -> iterator of cases
        self.chunks = chunks
        self.tag = tag
        self.describe = describe


# --------------------------------------------------------------------------------------- utilities

def canon(case):
    return json.dumps(case, sort_keys=True, separators=(',', ':'), default=_jd)


def _jd(o):
    if isinstance(o, float) and math.isinf(o):
        return 'inf'
    if isinstance(o, (set, frozenset)):
        return sorted(o)
    if isinstance(o, tuple):
        return list(o)
    return repr(o)


def sha(case):
    return hashlib.sha1(canon(case).encode()).hexdigest()


def in_repo(tb):
    """True if the innermost frame of the traceback lies in the code under test."""
    last = None
    while tb is not None:
        last = tb
        tb = tb.tb_next
    if last is None:
        return False
    fn = os.path.abspath(last.tb_frame.f_code.co_filename)
    return '/simprocesd/' in fn and not fn.startswith(VERIF)


def repo_frames(exc):
    """Short description of where in the code under test an exception was raised."""
    tb = exc.__traceback__
    out = []
    while tb is not None:
        fn = tb.tb_frame.f_code.co_filename
        if '/simprocesd/' in fn:
            out.append(f'{os.path.basename(fn)}:{tb.tb_lineno}:{tb.tb_frame.f_code.co_name}')
        tb = tb.tb_next
    return ' > '.join(out[-3:])


class Stats:
    def __init__(self):
        self.evaluations = 0
        self.nontrivial = set()
        self.classes = {}
        self.counters = {}
        self.samples = []
        self.inconclusive = 0
        self.watchdogs = 0
        self.inconclusive_samples = []
        self.excluded = 0
        self.times = []

    def add(self, case, res, dt):
        self.evaluations += 1
        if len(self.times) < 2000:
            self.times.append(dt)
        if res is None:
            return
        if res.get('nontrivial'):
            h = sha(case)
            if h not in self.nontrivial:
                self.nontrivial.add(h)
                if len(self.samples) < 3:
                    self.samples.append(case)
        for c in res.get('classes', ()):
            self.classes[c] = self.classes.get(c, 0) + 1
        for k, v in res.get('counters', {}).items():
            self.counters[k] = self.counters.get(k, 0) + v

    def merge(self, o):
        self.evaluations += o.evaluations
        self.nontrivial |= o.nontrivial
        for k, v in o.classes.items():
            self.classes[k] = self.classes.get(k, 0) + v
        for k, v in o.counters.items():
            self.counters[k] = self.counters.get(k, 0) + v
        for s in o.samples:
            if len(self.samples) < 3:
                self.samples.append(s)
        self.inconclusive += o.inconclusive
        self.inconclusive_samples = (self.inconclusive_samples + o.inconclusive_samples)[:2]
        self.excluded += o.excluded
        self.times += o.times[:200]


# ------------------------------------------------------------------------------ executing one case

_OUT = io.StringIO()
PROGRESS = [0]          # engines bump this at every dispatched event / interpreted operation
_WD = {'last': 0, 'rearm': 0, 'limit': 0.0}


def _alarm(signum, frame):
    # A case that is still dispatching events is slow, not hung: re-arm (bounded) instead of giving a verdict.
    if PROGRESS[0] != _WD['last'] and _WD['rearm'] < 20:
        _WD['last'] = PROGRESS[0]
        _WD['rearm'] += 1
        signal.setitimer(signal.ITIMER_VIRTUAL, _WD['limit'])
        return
    raise Watchdog('slow' if PROGRESS[0] != _WD['last'] else 'hung')


def execute(mod, case, ctx, limit=None):
    """Run one case. Returns result dict or raises Violation / Inconclusive / HarnessError."""
    _OUT.seek(0)
    _OUT.truncate()
    if limit:
        # CPU time of this process, not wall-clock time: a loaded or paused machine must never look like a hang
        _WD.update(last=PROGRESS[0], rearm=0, limit=limit)
        signal.signal(signal.SIGVTALRM, _alarm)
        signal.setitimer(signal.ITIMER_VIRTUAL, limit)
    try:
        with contextlib.redirect_stdout(_OUT):
            return mod.run_case(case, ctx)
    except Watchdog as w:
        if str(w) == 'slow':
            raise Inconclusive('too slow')      # it kept making progress: a size problem of the case, never a verdict
        if getattr(mod, 'WATCHDOG_IS_VIOLATION', False) and not ctx.get('_confirming'):
            # confirm with three times the budget before believing it
            try:
                return execute(mod, case, dict(ctx, _confirming=True), limit * 3)
            except Inconclusive:
                raise Violation(f'{mod.ID}.watchdog', f'no event was dispatched and no operation completed during {limit * 3:.0f}s '
                                'of CPU time, twice (statement: the run returns / the check completes): a loop inside one '
                                'event')
        raise Inconclusive('watchdog')
    except (Violation, Inconclusive):
        raise
    except RecursionError as e:
        # unbounded recursion inside the code under test is decided by the property module
        h = getattr(mod, 'on_repo_exception', None)
        if h is not None:
            v = h(case, e)
            if v is not None:
                raise v
        raise HarnessError(f'RecursionError: {repo_frames(e)}')
    except Exception as e:
        if in_repo(e.__traceback__):
            # an exception escaping from the code under test on an input inside the documented domain: the
            # behaviour the property describes did not take place
            h = getattr(mod, 'on_repo_exception', None)
            v = h(case, e) if h is not None else Violation(f'{mod.ID}.crash', f'{type(e).__name__}: {e} at {repo_frames(e)}')
            if v is not None:
                raise v from e
            raise HarnessError(f'unclassified exception from the code under test: {e!r} at {repo_frames(e)}\n'
                               + traceback.format_exc())
        raise HarnessError(f'harness exception: {e!r}\n' + traceback.format_exc())
    finally:
        if limit:
            signal.setitimer(signal.ITIMER_VIRTUAL, 0)


def case_limit(stats):
    """Per-case budget in seconds of CPU time: far above anything a terminating case needs."""
    if len(stats.times) >= 20:
        med = sorted(stats.times)[len(stats.times) // 2]
        return min(max(10.0, 500 * med), 30.0)
    return 20.0


# ------------------------------------------------------------------------------------ shard workers

def _search_worker(args):
    modname, phase_index, tier, seed, shrink, excluded = args
    mod = load(modname)
    ph = mod.phases(tier)[phase_index]
    from hypothesis import given, settings, HealthCheck, Phase, Verbosity, seed as hseed
    stats = Stats()
    fail = {}
    ctx = {'tier': tier, 'phase': ph.tag or ph.name, 'excluded': set(excluded)}
    phases = [Phase.generate] + ([Phase.shrink] if shrink else [])

    @settings(max_examples=ph.examples, database=None, deadline=None, derandomize=False,
              report_multiple_bugs=False, suppress_health_check=list(HealthCheck),
              phases=phases, verbosity=Verbosity.quiet, print_blob=False)
    @hseed(seed)
    @given(ph.strategy())
    def prop(case):
        t0 = time.process_time()
        try:
            res = execute(mod, case, ctx, case_limit(stats))
        except Inconclusive as e:
            stats.inconclusive += 1
            if str(e) == 'watchdog':
                stats.watchdogs += 1
                if stats.watchdogs >= 3:
                    raise HarnessError('three cases hit the per-case watchdog; giving up on this shard (inconclusive)')
            k = f'inconclusive:{e}'
            stats.classes[k] = stats.classes.get(k, 0) + 1
            if len(stats.inconclusive_samples) < 2:
                stats.inconclusive_samples.append(case)
            return
        except Violation as v:
            fail['case'] = case
            fail['oracle'] = v.oracle
            fail['msg'] = v.msg
            raise
        if res is not None and res.get('excluded'):
            stats.excluded += 1
            return
        stats.add(case, res, time.process_time() - t0)

    try:
        prop()
    except Violation:
        pass
    except HarnessError as e:
        return stats, None, str(e)
    except Exception as e:   # hypothesis internal trouble (flaky etc.)
        if fail:
            pass
        else:
            return stats, None, f'search failed: {e!r}\n{traceback.format_exc()}'
    return stats, (fail or None), None


def _machine_worker(args):
    modname, phase_index, tier, seed, shrink, excluded = args
    mod = load(modname)
    ph = mod.phases(tier)[phase_index]
    from hypothesis import settings, HealthCheck, Phase, Verbosity, seed as hseed
    from hypothesis.stateful import run_state_machine_as_test
    stats = Stats()
    cap = {'ops': []}

    def done(case, res):
        stats.add(case, res, 0.0)
    cap['done'] = done
    M = ph.factory(cap)
    phases = [Phase.generate] + ([Phase.shrink] if shrink else [])
    st_ = settings(max_examples=ph.examples, stateful_step_count=ph.steps, database=None, deadline=None,
                   derandomize=False, report_multiple_bugs=False, suppress_health_check=list(HealthCheck),
                   phases=phases, verbosity=Verbosity.quiet, print_blob=False)
    try:
        with contextlib.redirect_stdout(io.StringIO()):
            run_state_machine_as_test(hseed(seed)(M), settings=st_)
    except Violation as v:
        return stats, {'case': {'ops': json.loads(canon(cap['ops']))}, 'oracle': v.oracle, 'msg': v.msg}, None
    except Exception as e:
        return stats, None, f'state machine failed: {e!r}\n{traceback.format_exc()}'
    return stats, None, None


def _fuzz_worker(args):
    modname, phase_index, tier, seed, shrink, excluded = args
    import shutil
    import subprocess
    import tempfile
    mod = load(modname)
    ph = mod.phases(tier)[phase_index]
    stats = Stats()
    work = tempfile.mkdtemp(prefix='verif-fuzz-')
    try:
        os.makedirs(os.path.join(work, 'corpus'))
        env = dict(os.environ)
        cmd = [sys.executable, '-B', os.path.join(VERIF, ph.script), work, f'-runs={ph.runs}', f'-seed={seed % 2**31 or 1}',
               os.path.join(work, 'corpus')]
        out = subprocess.run(cmd, env=env, cwd=work, stdout=subprocess.PIPE, stderr=subprocess.STDOUT, text=True,
                             timeout=7200)
        fpath = os.path.join(work, 'finding.json')
        if os.path.exists(fpath):
            with open(fpath) as f:
                fd = json.load(f)
            ctx = {'tier': tier, 'phase': ph.tag or ph.name, 'excluded': set(excluded)}
            try:
                execute(mod, fd['case'], ctx, 60.0)
            except Violation as v:
                return stats, {'case': fd['case'], 'oracle': v.oracle, 'msg': v.msg}, None
            except (Inconclusive, HarnessError):
                pass
            return stats, None, 'fuzz target reported a finding that the replay path does not confirm: ' + str(fd)[:300]
        if out.returncode != 0:
            if 'No module named' in out.stdout and 'atheris' in out.stdout:
                stats.classes['fuzz-skipped-atheris-missing'] = 1
                return stats, None, None
            return stats, None, f'fuzz target failed rc={out.returncode}: {out.stdout[-600:]}'
        spath = os.path.join(work, 'stats.json')
        if os.path.exists(spath):
            with open(spath) as f:
                st = json.load(f)
            stats.evaluations = st['execs']
            stats.counters['fuzz_execs'] = st['execs']
            stats.counters['fuzz_ops'] = st.get('ops', 0)
            stats.counters['fuzz_nontrivial_not_deduplicated'] = st.get('nontrivial', 0)
            for c in st.get('samples', []):
                stats.nontrivial.add(sha(c))
                if len(stats.samples) < 3:
                    stats.samples.append(c)
    finally:
        shutil.rmtree(work, ignore_errors=True)
    return stats, None, None


def _enum_worker(args):
    modname, phase_index, tier, chunk, excluded = args
    mod = load(modname)
    ph = mod.phases(tier)[phase_index]
    stats = Stats()
    ctx = {'tier': tier, 'phase': ph.tag or ph.name, 'excluded': set(excluded)}
    fail = None
    for case in ph.space(chunk, ph.chunks):
        t0 = time.perf_counter()
        try:
            res = execute(mod, case, ctx, None)
        except Inconclusive:
            stats.inconclusive += 1
            continue
        except Violation as v:
            fail = {'case': case, 'oracle': v.oracle, 'msg': v.msg}
            break
        except HarnessError as e:
            return stats, None, str(e)
        if res is not None and res.get('excluded'):
            stats.excluded += 1
            continue
        stats.add(case, res, time.perf_counter() - t0)
    return stats, fail, None


_MODS = {}


def load(modname):
    if modname not in _MODS:
        import importlib
        _MODS[modname] = importlib.import_module(modname)
    return _MODS[modname]


# ------------------------------------------------------------------------------------ minimisation

def default_candidates(case):
    """Structural candidates: delete one list element / halve lists / simplify numbers."""
    def walk(node, path):
        if isinstance(node, list):
            if len(node) > 3:
                yield path, ('cut', len(node) // 2)
            for i in range(len(node) - 1, -1, -1):
                yield path, ('del', i)
            for i, x in enumerate(node):
                yield from walk(x, path + [i])
        elif isinstance(node, dict):
            for k in node:
                yield from walk(node[k], path + [k])
        elif isinstance(node, (int, float)) and not isinstance(node, bool) and node not in (0, 1):
            yield path, ('num', 0)
            yield path, ('num', 1)

    def apply(root, path, op):
        root = json.loads(json.dumps(root))
        parent = None
        node = root
        for p in path:
            parent, node = node, node[p]
        if op[0] == 'del':
            del node[op[1]]
        elif op[0] == 'cut':
            del node[op[1]:]
        elif op[0] == 'num':
            if parent is None:
                return op[1]
            parent[path[-1]] = op[1]
        return root

    for path, op in list(walk(case, [])):
        try:
            yield apply(case, path, op)
        except Exception:
            continue


def minimise(mod, case, oracle, ctx, budget_s=40.0, max_evals=1500):
    """Greedy: keep a candidate when the same oracle still fires."""
    gen = getattr(mod, 'candidates', None) or default_candidates
    valid = getattr(mod, 'valid', None)
    t_end = time.time() + budget_s
    evals = 0
    best = case
    msg = None
    improved = True
    while improved and time.time() < t_end and evals < max_evals:
        improved = False
        for cand in gen(best):
            if time.time() > t_end or evals >= max_evals:
                break
            if len(canon(cand)) >= len(canon(best)):
                continue
            if valid is not None:
                try:
                    if not valid(cand):
                        continue
                except Exception:
                    continue
            evals += 1
            try:
                execute(mod, cand, dict(ctx, _confirming=True), 20.0)
            except Violation as v:
                if v.oracle == oracle:
                    best, msg, improved = cand, v.msg, True
                    break
            except (Inconclusive, HarnessError):
                continue
            except Exception:
                continue
    return best, msg


# ------------------------------------------------------------------------------------ known findings

def load_known():
    p = os.path.join(VERIF, 'known_findings.json')
    if not os.path.exists(p):
        return []
    with open(p) as f:
        return json.load(f).get('findings', [])


def match_known(mod, known, case, oracle):
    shapes = getattr(mod, 'SHAPES', {})
    for k in known:
        if k.get('status') != 'open' or k.get('property') != mod.ID:
            continue
        if k.get('oracle') not in (None, oracle):
            continue
        pred = shapes.get(k.get('shape'))
        try:
            if pred is not None and pred(case):
                return k
        except Exception:
            continue
    return None


# --------------------------------------------------------------------------------------------- main

def write_evidence(mod, tier, seed, stats, wall, violations, known_seen, phases_info, extra=None):
    cov = {
        'evaluations': stats.evaluations,
        'distinct_nontrivial': len(stats.nontrivial),
        'rule': mod.RULE,
        'samples': json.loads(canon(stats.samples)) if stats.samples else [],
        'classes': dict(sorted(stats.classes.items())),
        'counters': dict(sorted(stats.counters.items())),
        'inconclusive': stats.inconclusive,
        'inconclusive_samples': json.loads(canon(stats.inconclusive_samples)),
        'excluded_by_known_findings': stats.excluded,
        'phases': phases_info,
        'known_findings_seen': known_seen,
    }
    if any(p.get('exhaustive') for p in phases_info):
        cov['exhaustive'] = all(p.get('exhaustive') for p in phases_info)
        cov['exhaustive_phases'] = [p['name'] for p in phases_info if p.get('exhaustive')]
    if extra:
        cov.update(extra)
    ev = {
        'property_id': mod.ID, 'tier': tier, 'seed': seed, 'level': 'exploration',
        'coverage': cov, 'assumptions': list(mod.ASSUMPTIONS), 'wall_s': round(wall, 2),
        'violations': violations,
    }
    evdir = os.environ.get('VERIF_EVIDENCE_DIR') or os.path.join(VERIF, 'evidence')
    os.makedirs(evdir, exist_ok=True)
    path = os.path.join(evdir, f'{mod.ID}.json')
    tmp = path + '.tmp'
    with open(tmp, 'w') as f:
        json.dump(ev, f, indent=1, default=_jd)
        f.write('\n')
    os.replace(tmp, path)


def save_replay(mod, case, oracle, msg, seed, tier, tag):
    d = os.path.join(VERIF, 'replays', 'found')
    if os.environ.get('VERIF_NO_SAVE'):   # sensitivity runs against scratch trees must not litter /verif
        d = os.path.join(os.environ.get('VERIF_EVIDENCE_DIR') or '/tmp', 'replays')
    os.makedirs(d, exist_ok=True)
    name = f'{mod.ID}-{oracle.split(".", 1)[-1]}-{sha(case)[:10]}.json'
    path = os.path.join(d, name)
    with open(path, 'w') as f:
        json.dump({'property': mod.ID, 'oracle': oracle, 'phase': tag, 'case': json.loads(canon(case)),
                   'seed': seed, 'tier': tier, 'message': msg}, f, indent=1)
        f.write('\n')
    return os.path.relpath(path, VERIF)


def replay_file(mod, path, tier='quick'):
    with open(path) as f:
        rec = json.load(f)
    ctx = {'tier': tier, 'phase': rec.get('phase'), 'excluded': set(), 'replay': True}
    return rec, execute(mod, rec['case'], ctx, 120.0)


class _Sink:
    def write(self, *a):
        return 0

    def flush(self):
        pass


_REAL_OUT = sys.stdout


def print(*a, **k):    # noqa: A001  (the runner's own lines go to the real stdout, everything else is swallowed)
    k.setdefault('file', _REAL_OUT)
    import builtins
    builtins.print(*a, **k)
    _REAL_OUT.flush()


def run_property(modname, tier, seed, replay=None, workers=None):
    t0 = time.time()
    # the library prints from several places (also from __del__ at garbage-collection time): keep stdout clean
    sys.stdout = _Sink()
    mod = load(modname)
    import simprocesd
    if not os.path.abspath(simprocesd.__file__).startswith(os.path.abspath(REPO) + os.sep):
        print(f'harness error: simprocesd imported from {simprocesd.__file__}, expected under {REPO}')
        return 2
    if replay:
        try:
            rec, _ = replay_file(mod, replay, tier)
        except Violation as v:
            print(f'replay: {v}')
            print(f'VIOLATION property={mod.ID} replay={replay}')
            return 1
        except (HarnessError, Inconclusive) as e:
            print(f'harness error during replay: {e}')
            return 2
        print(f'replay {replay}: property held')
        return 0

    known = load_known()
    known_seen = []
    excluded = set()
    total = Stats()
    phases_info = []
    nproc = workers or (4 if tier == 'quick' else 16)

    # 1. regression corpus (committed minimal failures; plain checks that bypass Hypothesis)
    corpus = sorted(p for p in _glob(os.path.join(VERIF, 'replays', f'{mod.ID}-*.json')))
    for path in corpus:
        rel = os.path.relpath(path, VERIF)
        try:
            rec, res = replay_file(mod, path, tier)
            total.add(rec['case'], res, 0.0)
        except Violation as v:
            with open(path) as f:
                rec = json.load(f)
            k = match_known(mod, known, rec['case'], v.oracle)
            if k is not None:
                if k['text'] not in known_seen:
                    known_seen.append(k['text'])
                    print(f'KNOWN-FINDING: property={mod.ID} {k["text"]}')
                continue
            print(f'{v}')
            print(f'VIOLATION property={mod.ID} replay={rel}')
            write_evidence(mod, tier, seed, total, time.time() - t0, 1, known_seen, phases_info)
            return 1
        except Inconclusive:
            total.inconclusive += 1
        except HarnessError as e:
            print(f'harness error in corpus replay {rel}: {e}')
            return 2
    phases_info.append({'name': 'replay-corpus', 'cases': len(corpus)})

    # 2. generated search / enumeration
    phs = mod.phases(tier)
    ctx_mp = multiprocessing.get_context('fork')
    for pi, ph in enumerate(phs):
        rounds = 0
        while True:
            rounds += 1
            tp = time.time()
            if ph.kind in ('search', 'machine', 'fuzz'):
                jobs = [(modname, pi, tier, seed * 1000 + s + 100 * pi, tier == 'thorough', sorted(excluded))
                        for s in range(ph.shards)]
                worker = {'search': _search_worker, 'machine': _machine_worker, 'fuzz': _fuzz_worker}[ph.kind]
            else:
                jobs = [(modname, pi, tier, c, sorted(excluded)) for c in range(ph.chunks)]
                worker = _enum_worker
            if len(jobs) == 1 or nproc == 1:
                results = [worker(j) for j in jobs]
            else:
                with ctx_mp.Pool(min(nproc, len(jobs))) as pool:
                    results = pool.map(worker, jobs, chunksize=1)
            phase_stats = Stats()
            fail = None
            for st, fl, err in results:
                if err:
                    print(f'harness error in phase {ph.name}: {err}')
                    return 2
                phase_stats.merge(st)
                if fl and fail is None:
                    fail = fl
            total.merge(phase_stats)
            info = {'name': ph.name, 'kind': ph.kind, 'evaluations': phase_stats.evaluations,
                    'distinct_nontrivial': len(phase_stats.nontrivial), 'wall_s': round(time.time() - tp, 2)}
            if ph.kind == 'enum':
                info['exhaustive'] = fail is None
                info['space'] = ph.describe
            elif ph.kind == 'fuzz':
                info['shards'] = ph.shards
                info['libfuzzer_runs_per_shard'] = ph.runs
                info['note'] = 'distinct_nontrivial of this phase counts only the sampled cases (the target does not de-duplicate)'
            else:
                info['shards'] = ph.shards
                info['examples_per_shard'] = ph.examples
                if ph.kind == 'machine':
                    info['stateful_step_count'] = ph.steps
            if fail is None:
                phases_info.append(info)
                break
            # a violation: minimise, match against known findings
            ctx = {'tier': tier, 'phase': ph.tag or ph.name, 'excluded': set(excluded)}
            case, msg = fail['case'], fail['msg']
            try:
                small, m2 = minimise(mod, case, fail['oracle'], ctx,
                                     budget_s=40.0 if tier == 'quick' else 180.0)
                if m2 is not None:
                    case, msg = small, m2
            except Exception:
                pass
            k = match_known(mod, known, case, fail['oracle'])
            if k is not None and rounds < 8:
                if k['text'] not in known_seen:
                    known_seen.append(k['text'])
                    print(f'KNOWN-FINDING: property={mod.ID} {k["text"]}')
                excluded.add(k['shape'])
                continue
            path = save_replay(mod, case, fail['oracle'], msg, seed, tier, ph.tag or ph.name)
            phases_info.append(info)
            print(f'{fail["oracle"]}: {msg}')
            print(f'VIOLATION property={mod.ID} replay={path}')
            write_evidence(mod, tier, seed, total, time.time() - t0, 1, known_seen, phases_info)
            return 1

    extra = None
    fin = getattr(mod, 'finish', None)
    if fin is not None:
        extra = fin(tier, total)
    write_evidence(mod, tier, seed, total, time.time() - t0, 0, known_seen, phases_info, extra)
    nt = len(total.nontrivial)
    print(f'{mod.ID} {tier}: held on {total.evaluations} cases ({nt} distinct non-trivial, '
          f'{total.inconclusive} inconclusive, {total.excluded} excluded) in {time.time() - t0:.1f}s')
    if total.evaluations > 0 and nt < 2:
        print(f'harness error: only {nt} non-trivial cases were generated; the generator needs fixing')
        return 2
    return 0


def _glob(pattern):
    import glob
    return glob.glob(pattern)
