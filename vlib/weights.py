"""Control of the random tie-break weight drawn by Event.__init__ (DESIGN 2.5).

simulation.py does `import random` and `random.random()`; for the duration of a case the module
attribute `simprocesd.model.simulation.random` is replaced by a Weights object."""
import random as _random

import simprocesd.model.simulation as simmod

POLICIES = ('random', 'fifo', 'lifo', 'const')


class Weights:
    def __init__(self, mode='random', seed=0, script=None):
        self.mode = mode
        self.r = _random.Random(seed)
        self.n = 0
        self.script = list(script) if script else None

    def random(self):
        self.n += 1
        if self.script is not None:
            return self.script[(self.n - 1) % len(self.script)]
        if self.mode == 'fifo':
            return self.n * 2.0 ** -40
        if self.mode == 'lifo':
            return 1.0 - self.n * 2.0 ** -40
        if self.mode == 'const':
            return 0.5
        return self.r.random()

    # everything else the simulator might want from the module
    def __getattr__(self, name):
        return getattr(_random, name)


class installed:
    """Context manager: install a Weights object as simulation.random and restore afterwards."""

    def __init__(self, w):
        self.w = w

    def __enter__(self):
        self.saved = simmod.random
        simmod.random = self.w
        return self.w

    def __exit__(self, *a):
        simmod.random = self.saved
        return False


def controls_weights():
    """Does replacing simulation.random still control Event.random_weight?"""
    with installed(Weights(script=[0.123456789])):
        e = simmod.Event(0, 1, lambda: None, 1)
    return e.random_weight == 0.123456789
